"""Which properties are currently claimed in MANIFEST.json (kept in step with what ./check can decide)."""

TECHNIQUE = {
    "C01": "runtime monitoring: offline checker over HAL wire log + reconstructed controller RAM (write counters) against an independent pixel-encoding model",
    "C02": "runtime monitoring: differential history-vs-fresh execution on the simulated controller (RAM + write-counter comparison)",
    "C03": "runtime monitoring: reference frame-buffer model compared after every draw call; Miri on small geometries",
    "C04": "fault injection at every SPI transfer index with online traffic-after-failure monitor and recovery differential",
    "C05": "runtime monitoring: online busy-episode monitors in the controller model under enumerated BUSY schedules; poll-budget bounded progress",
    "C06": "runtime monitoring: decoded-window + RAM diff + write-counter oracle over window grids",
    "C07": "runtime monitoring: write-counter / uniformity checker plus twin-driver pixel comparison",
    "C08": "runtime monitoring: sleep signature + register-snapshot and memory differential across sleep/wake histories",
    "C09": "runtime monitoring: online power/init monitor at every refresh trigger; hooked driver flag vs model state",
    "C10": "runtime monitoring: offline checker over raw (D/C,len,bytes) transfer log; payload conservation across chunking",
    "C11": "runtime monitoring: offline checker over RST/delay/SPI event log on a logical clock",
    "C12": "twin execution with buffer scribbling + AddressSanitizer + Miri",
    "C13": "runtime monitoring: reference sizing formula vs real types over enumerated geometries; Miri",
    "C14": "runtime monitoring: exhaustive comparison with independent colour tables; Miri on small domains",
    "C15": "runtime monitoring: CS/DC demultiplexed wire log vs independent tiling oracle",
    "C16": "runtime monitoring: pixel-set reference model over enumerated rectangle pairs; Miri",
    "C17": "runtime monitoring: LUT-register upload log vs measured reference uploads over enumerated mode histories",
    "C18": "runtime monitoring: offline checker over decoded command stream against datasheet opcode/arity/geometry tables",
}
LEVEL_TEXT = {
    "C01": "Every full-frame entry point of all 27 trait drivers (both 2.13in variants) is executed against an executable controller model for byte-sweep / constant / position-coded frames and pixel groups through the Display aliases; all wire bytes, RAM bytes and write counters are compared. Exploration is the right level: the quantifier (all contents) is sampled so that every byte position sees every value (thorough) and every pixel of every rotation is drawn.",
    "C02": "All protocol-respecting histories up to length 2 (quick) / 3 plus seeded length 4 (thorough) over a 15-30 symbol alphabet per panel are executed and the probe update is compared byte for byte (content and write counters) with the same update on a fresh driver. The quantifier is over histories, so bounded-exhaustive exploration with failure minimisation is the fitting level.",
    "C04": "Every command/parameter transfer and the ends plus seeded interior points of every bulk burst of every operation (fresh and after a state-changing predecessor) is failed once; error identity, silence after the failure, absence of panics and recoverability are observed on the real driver. This is fault enumeration over crash points, exhaustive over indices on the three smallest panels in the thorough tier.",
    "C05": "The drivers are run against a BUSY generator in datasheet polarity for every operation pair and every busy-duration tuple of the first three episodes (0..7 polls), under up to four idle-delay settings; violations are detected online inside the controller model and by a poll-budget bound, so termination is decided on logical steps.",
    "C06": "Every partial entry point is executed over window grids (exhaustive on the smallest panel in the thorough tier, all aligned x/width elsewhere, seeded windows) with pre-loaded RAM; the decoded window, every RAM byte and every write counter are checked.",
    "C07": "clear_frame is executed for every background colour after every history of length 0..1 (quick) / 0..2 (thorough); write counters, wire uniformity and a twin-driver pixel comparison decide the clauses.",
    "C08": "sleep/wake_up are executed between every prefix and suffix of the alphabet (bounded), in repeated cycles and without a preceding sleep; sleep signature, reset pulse, register snapshot and suffix memory effect are compared with construction.",
    "C09": "Every refresh trigger sent in any history of the C02 bound is judged online against the controller model's power/sleep/init state; the hooked 1in02 power flag is compared with the model after every call.",
    "C10": "All operations of all panels are executed and every SPI transfer is examined; buffer lengths straddling the 4096-byte chunk boundary are swept in both write modes with byte-exact payload comparison.",
    "C11": "new, wake_up (several contexts) and internally re-initialising operations are executed for all panels under four idle-delay settings and the RST/delay/SPI interleaving is checked on the event log.",
    "C12": "Every buffer-lending history of the C02 bound is executed twice (buffers kept vs scribbled+freed+reallocated) and the wire traces compared; the scribbling run is repeated under AddressSanitizer for all panels at full frame sizes and under Miri for the unsafe driver and the smallest panels.",
    "C03": "The real set_pixel / draw_iter of every shipped Display alias and of run-time sized buffers is executed for border pixels, a lattice, coordinate extremes and (thorough) every pixel of every rotation and colour; after every call the whole buffer is compared with an independent reference frame-buffer model, and VarDisplay tails are guarded by sentinels. The small-geometry pass is repeated under Miri in the thorough tier.",
    "C13": "Every shipped alias and every VarDisplay geometry with w,h in 0..=64 (three colour types, four slice lengths) is checked against an independent sizing formula, including halves by pointer arithmetic and drawability of the last row/column; buffer_len is compared exhaustively for 0..=2048 squared in the thorough tier.",
    "C14": "Every public colour conversion and encoding is executed over its complete finite domain (bytes, nibbles, pairs, raw values, bitmask positions, all Rgb565/Rgb555 values, a 2^18 lattice / all 2^24 Rgb888 values) and compared with independent tables; panics are caught and counted.",
    "C15": "Full-frame and partial writes over window grids concentrated at the 648-column / 492-row seams, with 1-row, 3-row and full pixel buffers on both planes, are demultiplexed per chip from the CS/DC levels sampled at each bus write and compared with an independent tiling oracle; all 32 mode configurations are compared with the datasheet packing table.",
    "C16": "Rect::intersect / is_empty / sub_offset are executed for all pairs of rectangles with coordinates and sizes in 0..=6 (quick) / 0..=12 (thorough, 8.2e8 pairs) and seeded rectangles up to the u32 range, and compared with a per-axis pixel-set oracle.",
    "C17": "All sequences up to length 3 (quick) / 4 (thorough) over {select full, select quick, reload, sleep+wake, display, set_refresh} are executed in all three feature builds and every LUT register upload is compared with the measured reference upload of the mode last selected.",
    "C18": "The constructor and every operation (fresh and after settings-changing predecessors; all length-2 histories in the thorough tier) are executed in all three feature builds and every decoded command is checked against datasheet opcode sets, block arities and the panel geometry.",
}
LEVEL_NOTE = {
    "C01": "Trusted: controller RAM addressing semantics in model.rs (window, counters, entry mode, wrap; DTM pointer reset), per-panel primary-plane/encoding table. 12.48in driver covered under C15.",
    "C02": "Trusted: model addressing semantics; the alphabet/grammar in props/common.rs defines 'protocol-respecting'. Histories longer than the bound are not explored.",
    "C04": "Trusted: fault injector fails exactly one SpiDevice::write; pin errors are not injected (drivers ignore them by design). 12.48in (SpiBus) not covered here.",
    "C05": "Trusted: which commands raise BUSY and the polarity per family (datasheets); poll-count time instead of wall time; bound of 64 consecutive idle polls = 'spins'.",
    "C06": "Trusted: window decoding per controller (inclusive ends, byte vs pixel units, forced low bits) in model.rs.",
    "C07": "Trusted: primary plane per panel; the Display alias' DrawTarget::clear as definition of 'uniformly painted'.",
    "C08": "Trusted: deep-sleep signatures per family (3in7 uses the vendor's UC-style tail); register snapshot = last parameters per opcode since the last hardware reset, LUT and RAM commands excluded.",
    "C09": "Trusted: essential-init opcode sets per panel (panels.rs) and the power model (reset clears, PON sets, POF / deep sleep clear).",
    "C10": "Trusted: HAL mock samples D/C at each transfer; opcode tables in proto.rs. Built for linux target only.",
    "C11": "Trusted: event order in the HAL log equals call order (single-threaded). Durations are the driver's explicit delay calls, not wall time.",
    "C12": "Trusted: allocator reuse makes scribbled/freed buffers observable natively; ASan / Miri decide independently of reuse. Only executed histories are covered.",
    "C03": "Trusted: the documented buffer layout (row-major, MSB first, padded rows, two equal planes for tricolour, even x in the high nibble for 4 bpp) as written down in the reference model.",
    "C13": "Trusted: the sizing formula planes * rows * ceil(w*bpp/8).",
    "C14": "Trusted: the documented encodings; 'brightness-nearest' is only decided where three brightness definitions agree outside a +-1/32 band around one half.",
    "C15": "Trusted: documented chip layout and X mirroring of the two upper chips; the sentinel window block for empty intersections is accepted as the documented off-screen window.",
    "C16": "Trusted: the pixel-set semantics of a rectangle (x..x+w, y..y+h); precondition: right and bottom edges representable in u32.",
    "C17": "Trusted: LUT register opcodes per family; reference uploads are measured from the driver itself ([new; set_lut(Some(m))]).",
    "C18": "Trusted: opcode sets are the family union plus vendor extras (deliberately permissive); block arities and geometry are the sharp part.",
}
DESIGN_REF = {}

CLAIMED = ["C01", "C02", "C03", "C04", "C05", "C06", "C07", "C08", "C09", "C10", "C11", "C12", "C13", "C14", "C15", "C16", "C17", "C18"]

NOT_APPLICABLE = {}
