"""Which properties are currently claimed in MANIFEST.json (kept in step with what ./check can decide)."""

TECHNIQUE = {
    "C01": "runtime monitoring: offline checker over HAL wire log + reconstructed controller RAM (write counters) against an independent pixel-encoding model",
    "C02": "runtime monitoring: differential history-vs-fresh execution on the simulated controller (RAM + write-counter comparison)",
    "C03": "runtime monitoring: reference frame-buffer model compared after every draw call; Miri on small geometries",
    "C04": "fault injection at every SPI transfer index with online traffic-after-failure monitor and recovery differential",
    "C05": "runtime monitoring: online busy-episode monitors in the controller model under enumerated BUSY schedules; poll-budget bounded progress",
    "C06": "runtime monitoring: decoded-window + RAM diff + write-counter oracle over window grids",
    "C07": "runtime monitoring: write-counter / uniformity checker plus twin-driver pixel comparison",
    "C08": "runtime monitoring: sleep signature + register-snapshot and memory differential across sleep/wake histories",
    "C09": "runtime monitoring: online power/init monitor at every refresh trigger; hooked driver flag vs model state",
    "C10": "runtime monitoring: offline checker over raw (D/C,len,bytes) transfer log; payload conservation across chunking",
    "C11": "runtime monitoring: offline checker over RST/delay/SPI event log on a logical clock",
    "C12": "twin execution with buffer scribbling + AddressSanitizer + Miri",
    "C13": "runtime monitoring: reference sizing formula vs real types over enumerated geometries; Miri",
    "C14": "runtime monitoring: exhaustive comparison with independent colour tables; Miri on small domains",
    "C15": "runtime monitoring: CS/DC demultiplexed wire log vs independent tiling oracle",
    "C16": "runtime monitoring: pixel-set reference model over enumerated rectangle pairs; Miri",
    "C17": "runtime monitoring: LUT-register upload log vs measured reference uploads over enumerated mode histories",
    "C18": "runtime monitoring: offline checker over decoded command stream against datasheet opcode/arity/geometry tables",
}
LEVEL_TEXT = {
    "C01": "Every full-frame entry point of all 27 trait drivers (both 2.13in variants) is executed against an executable controller model for byte-sweep / constant / position-coded frames and pixel groups through the Display aliases; all wire bytes, RAM bytes and write counters are compared. Exploration is the right level: the quantifier (all contents) is sampled so that every byte position sees every value (thorough) and every pixel of every rotation is drawn.",
    "C10": "All operations of all panels are executed and every SPI transfer is examined; buffer lengths straddling the 4096-byte chunk boundary are swept in both write modes with byte-exact payload comparison.",
    "C11": "new, wake_up (several contexts) and internally re-initialising operations are executed for all panels under four idle-delay settings and the RST/delay/SPI interleaving is checked on the event log.",
}
LEVEL_NOTE = {
    "C01": "Trusted: controller RAM addressing semantics in model.rs (window, counters, entry mode, wrap; DTM pointer reset), per-panel primary-plane/encoding table. 12.48in driver covered under C15.",
    "C10": "Trusted: HAL mock samples D/C at each transfer; opcode tables in proto.rs. Built for linux target only.",
    "C11": "Trusted: event order in the HAL log equals call order (single-threaded). Durations are the driver's explicit delay calls, not wall time.",
}
DESIGN_REF = {}

CLAIMED = ["C01", "C10", "C11"]

_WIP = "monitor not finished in this round yet (see DESIGN.md section 5 for the planned monitor); will be claimed when its check is silent on the pinned tree or all alarms are triaged"
NOT_APPLICABLE = {p: _WIP for p in ["C02", "C03", "C04", "C05", "C06", "C07", "C08", "C09", "C12", "C13", "C14", "C15", "C16", "C17", "C18"]}
