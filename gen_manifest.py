#!/usr/bin/env python3
"""Regenerates MANIFEST.json from checkmeta.py and the list of properties currently claimed."""
import json, sys, os
sys.path.insert(0, os.path.dirname(os.path.abspath(__file__)))
from checkmeta import META
from claims import CLAIMED, NOT_APPLICABLE, TECHNIQUE, LEVEL_TEXT, LEVEL_NOTE, DESIGN_REF

checks = []
for p in sorted(CLAIMED):
    m = META[p]
    checks.append({
        "property_id": p,
        "quick_cmd": "./check %s --tier quick" % p,
        "thorough_cmd": "./check %s --tier thorough" % p,
        "evidence_file": "/verif/evidence/%s.json" % p,
        "replay_cmd_template": "./check %s --replay {path}" % p,
        "engine": "epdmon",
        "level_claimed": {"category": m["level"], "text": LEVEL_TEXT[p], "design_ref": DESIGN_REF.get(p, "DESIGN.md section 5 (%s)" % p)},
        "level_note": LEVEL_NOTE[p],
        "technique": TECHNIQUE[p],
    })
man = {
    "version": 1,
    "setup_cmd": "./check setup",
    "hooks": {
        "guard": "cargo feature `verif` of epd-waveshare (off by default)",
        "enable": "harness/Cargo.toml feature `verif` = [\"epd-waveshare/verif\"]; ./check builds every variant with --features verif",
        "baseline_off_cmd": "cd /repo && cargo test --workspace --no-fail-fast --offline",
        "source_commits": ["e739c3b"],
        "add_only": True,
    },
    "engines": [
        {"name": "epdmon", "path": "/verif/harness", "serves_properties": sorted(CLAIMED),
         "kind_free_text": "Rust harness: simulated embedded-hal board recording an event log at the HAL boundary, executable controller models (SSD16xx / UC81xx / ACeP / 4x UC8179), online + offline monitors, reference models for the pure code; sanitizer layer (Miri, ASan) driven by sanitize.py"},
    ],
    "checks": checks,
    "not_applicable": [{"property_id": p, "reason": r} for p, r in sorted(NOT_APPLICABLE.items())],
    "notes": "All checks are runtime monitors over executions of the real driver code rebuilt from /repo's working tree (path dependency). Known genuine defects that are recorded rather than repaired are listed in /verif/known_findings.json and printed as KNOWN-FINDING lines.",
}
json.dump(man, open(os.path.join(os.path.dirname(os.path.abspath(__file__)), "MANIFEST.json"), "w"), indent=1)
print("MANIFEST.json written with", len(checks), "checks and", len(NOT_APPLICABLE), "not_applicable")
