//! Simulated board: embedded-hal implementations that record every event at the HAL boundary
//! on one logical clock and feed the controller model(s) online.
use crate::model::Ctrl;
use embedded_hal::delay::DelayNs;
use embedded_hal::digital::{ErrorType as PinErrorType, InputPin, OutputPin};
use embedded_hal::spi::{ErrorKind, ErrorType as SpiErrorType, Operation, SpiBus, SpiDevice};
use std::cell::RefCell;
use std::rc::Rc;

#[derive(Clone, Copy, Debug, PartialEq, Eq)]
pub struct SimSpiError {
    pub id: u32,
}
impl embedded_hal::spi::Error for SimSpiError {
    fn kind(&self) -> ErrorKind {
        ErrorKind::Other
    }
}

#[derive(Clone, Copy, Debug, PartialEq, Eq)]
#[repr(u8)]
pub enum Pin {
    Dc = 0,
    Rst = 1,
    Busy = 2,
    CsM1 = 3,
    CsS1 = 4,
    CsM2 = 5,
    CsS2 = 6,
    DcM1S1 = 7,
    DcM2S2 = 8,
    RstM1S1 = 9,
    RstM2S2 = 10,
    BusyM1 = 11,
    BusyS1 = 12,
    BusyM2 = 13,
    BusyS2 = 14,
}
impl Pin {
    pub fn bit(self) -> u16 {
        1u16 << (self as u8)
    }
}

#[derive(Clone, Copy, Debug, PartialEq)]
pub enum Ev {
    /// one SPI write transfer. `levels` = snapshot of all output pin levels at that instant.
    Spi { levels: u16, off: u32, len: u32, ok: bool },
    /// SpiBus read / flush / other non-write operations
    BusRead { levels: u16, len: u32 },
    BusFlush { levels: u16, ok: bool },
    OtherSpiOp { what: u8 },
    PinSet { pin: Pin, level: bool },
    Poll { pin: Pin, ask_high: bool, answer: bool, chip_busy: bool },
    Delay { ns: u64, unit: u8 }, // unit: 0 ns, 1 us, 2 ms (which trait method was called)
    OpBegin { idx: u32 },
    OpEnd { idx: u32 },
}

#[derive(Clone, Copy, Debug, PartialEq, Eq)]
pub enum BusyMode {
    /// The line follows the controller model in datasheet polarity like `Physical`; the name records
    /// the intent that the rig leaves the busy generator at its defaults (every pulse has length 0,
    /// except the power-off pulse floor of panels whose driver waits for the start of that pulse),
    /// so no wait ever blocks. (It used to answer `false` to whichever pin question was asked, which
    /// made a driver that reads the other pin method for the same level spin for ever: false alarm.)
    Never,
    /// BUSY follows the controller model's generator in datasheet polarity.
    Physical,
}

pub const POLL_IDLE_BUDGET: u32 = 64;

/// payload used to abort a driver call that spins on an idle panel
#[derive(Debug)]
pub struct SpinAbort {
    pub polls: u32,
}
/// payload used to abort a driver call that exceeds the transfer cap
#[derive(Debug)]
pub struct CapAbort;

pub struct Board {
    pub log: Vec<Ev>,
    pub bytes: Vec<u8>,
    pub logging: bool,
    /// keep payload bytes in `bytes` (otherwise only lengths are logged)
    pub keep_bytes: bool,
    pub levels: u16,
    pub clock_ns: u64,
    pub chips: Vec<Ctrl>,
    pub multi: bool,
    pub spi_writes: u64,
    pub spi_bytes: u64,
    pub fault_at: Option<u64>,
    pub fault_id: u32,
    pub fault_fired: bool,
    pub traffic_after_fault: u32,
    /// for SpiBus: fail on flush index too
    pub busy_mode: BusyMode,
    pub idle_poll_streak: u32,
    pub polls: u64,
    pub spin_aborted: bool,
    pub max_transfers: u64,
    pub anomalies: Vec<String>,
    pub rst_low_spi: u32,
}

pub type BoardRef = Rc<RefCell<Board>>;

impl Board {
    pub fn new(chips: Vec<Ctrl>, multi: bool) -> BoardRef {
        Rc::new(RefCell::new(Board {
            log: Vec::new(),
            bytes: Vec::new(),
            logging: true,
            keep_bytes: true,
            levels: 0,
            clock_ns: 0,
            chips,
            multi,
            spi_writes: 0,
            spi_bytes: 0,
            fault_at: None,
            fault_id: 0,
            fault_fired: false,
            traffic_after_fault: 0,
            busy_mode: BusyMode::Never,
            idle_poll_streak: 0,
            polls: 0,
            spin_aborted: false,
            max_transfers: u64::MAX,
            anomalies: Vec::new(),
            rst_low_spi: 0,
        }))
    }
    pub fn level(&self, p: Pin) -> bool {
        self.levels & p.bit() != 0
    }
    fn push(&mut self, e: Ev) {
        if self.logging {
            self.log.push(e);
        }
    }
    pub fn anomaly(&mut self, s: &str) {
        if self.anomalies.len() < 64 {
            self.anomalies.push(s.to_string());
        }
    }
    pub fn arm_fault(&mut self, at_write_index_from_now: u64, id: u32) {
        self.fault_at = Some(self.spi_writes + at_write_index_from_now);
        self.fault_id = id;
        self.fault_fired = false;
        self.traffic_after_fault = 0;
    }
    pub fn disarm_fault(&mut self) {
        self.fault_at = None;
    }
    pub fn op_begin(&mut self, idx: u32) {
        self.idle_poll_streak = 0;
        self.push(Ev::OpBegin { idx });
        for c in self.chips.iter_mut() {
            c.op_begin();
        }
    }
    pub fn op_end(&mut self, idx: u32) {
        self.push(Ev::OpEnd { idx });
        for c in self.chips.iter_mut() {
            c.op_end();
        }
    }
    pub fn chip(&self) -> &Ctrl {
        &self.chips[0]
    }
    pub fn chip_mut(&mut self) -> &mut Ctrl {
        &mut self.chips[0]
    }

    fn set_pin(&mut self, pin: Pin, level: bool) {
        let old = self.level(pin);
        if level {
            self.levels |= pin.bit();
        } else {
            self.levels &= !pin.bit();
        }
        self.push(Ev::PinSet { pin, level });
        if old && !level {
            // falling edge on a reset line = hardware reset
            match pin {
                Pin::Rst => {
                    for c in self.chips.iter_mut() {
                        c.hw_reset();
                    }
                }
                Pin::RstM1S1 => {
                    self.chips[0].hw_reset();
                    self.chips[1].hw_reset();
                }
                Pin::RstM2S2 => {
                    self.chips[2].hw_reset();
                    self.chips[3].hw_reset();
                }
                _ => {}
            }
        }
    }

    /// single-controller SPI write
    fn spi_write(&mut self, data: &[u8]) -> Result<(), SimSpiError> {
        let idx = self.spi_writes;
        self.spi_writes += 1;
        if self.spi_writes > self.max_transfers {
            std::panic::panic_any(CapAbort);
        }
        if self.fault_fired {
            self.traffic_after_fault += 1;
        }
        let fail = self.fault_at == Some(idx);
        let off = self.bytes.len() as u32;
        if self.logging && self.keep_bytes {
            self.bytes.extend_from_slice(data);
        }
        let levels = self.levels;
        self.push(Ev::Spi { levels, off, len: data.len() as u32, ok: !fail });
        if fail {
            self.fault_fired = true;
            return Err(SimSpiError { id: self.fault_id });
        }
        self.spi_bytes += data.len() as u64;
        self.idle_poll_streak = 0;
        if !self.multi {
            if !self.level(Pin::Rst) {
                self.rst_low_spi += 1;
                // chip held in reset ignores traffic
                return Ok(());
            }
            let dc = self.level(Pin::Dc);
            self.chips[0].feed(dc, data);
        } else {
            // chips order: M1, S1, M2, S2
            let cs = [Pin::CsM1, Pin::CsS1, Pin::CsM2, Pin::CsS2];
            let dcs = [Pin::DcM1S1, Pin::DcM1S1, Pin::DcM2S2, Pin::DcM2S2];
            let rsts = [Pin::RstM1S1, Pin::RstM1S1, Pin::RstM2S2, Pin::RstM2S2];
            for i in 0..4 {
                if !self.level(cs[i]) {
                    if !self.level(rsts[i]) {
                        self.rst_low_spi += 1;
                        continue;
                    }
                    let dc = self.level(dcs[i]);
                    self.chips[i].feed(dc, data);
                }
            }
        }
        Ok(())
    }

    fn poll(&mut self, pin: Pin, ask_high: bool) -> bool {
        self.polls += 1;
        let chip_idx = match pin {
            Pin::Busy | Pin::BusyM1 => 0,
            Pin::BusyS1 => 1,
            Pin::BusyM2 => 2,
            Pin::BusyS2 => 3,
            _ => 0,
        };
        match self.busy_mode {
            BusyMode::Never | BusyMode::Physical => {
                let (busy, low_active) = self.chips[chip_idx].busy_poll();
                // line level: asserted level is low when low_active
                let level_high = if low_active { !busy } else { busy };
                let answer = if ask_high { level_high } else { !level_high };
                self.push(Ev::Poll { pin, ask_high, answer, chip_busy: busy });
                if busy {
                    self.idle_poll_streak = 0;
                } else {
                    self.idle_poll_streak += 1;
                    if self.idle_poll_streak > POLL_IDLE_BUDGET {
                        self.spin_aborted = true;
                        let polls = self.idle_poll_streak;
                        self.idle_poll_streak = 0;
                        std::panic::panic_any(SpinAbort { polls });
                    }
                }
                answer
            }
        }
    }
}

// ---------------- SpiDevice ----------------
#[derive(Clone)]
pub struct SimSpi(pub BoardRef);
impl SpiErrorType for SimSpi {
    type Error = SimSpiError;
}
impl SpiDevice<u8> for SimSpi {
    fn transaction(&mut self, operations: &mut [Operation<'_, u8>]) -> Result<(), SimSpiError> {
        for op in operations.iter_mut() {
            match op {
                Operation::Write(d) => {
                    // release the borrow before a possible panic_any inside
                    let r = { self.0.borrow_mut().spi_write(d) };
                    r?;
                }
                Operation::Read(_) => self.0.borrow_mut().push(Ev::OtherSpiOp { what: 1 }),
                Operation::Transfer(_, _) => self.0.borrow_mut().push(Ev::OtherSpiOp { what: 2 }),
                Operation::TransferInPlace(_) => self.0.borrow_mut().push(Ev::OtherSpiOp { what: 3 }),
                Operation::DelayNs(_) => self.0.borrow_mut().push(Ev::OtherSpiOp { what: 4 }),
            }
        }
        Ok(())
    }
}

// ---------------- SpiBus (12.48in) ----------------
#[derive(Clone)]
pub struct SimBus(pub BoardRef);
impl SpiErrorType for SimBus {
    type Error = SimSpiError;
}
impl SpiBus<u8> for SimBus {
    fn read(&mut self, words: &mut [u8]) -> Result<(), SimSpiError> {
        let mut b = self.0.borrow_mut();
        let levels = b.levels;
        b.push(Ev::BusRead { levels, len: words.len() as u32 });
        for w in words.iter_mut() {
            *w = 0;
        }
        Ok(())
    }
    fn write(&mut self, words: &[u8]) -> Result<(), SimSpiError> {
        let r = { self.0.borrow_mut().spi_write(words) };
        r
    }
    fn transfer(&mut self, _read: &mut [u8], _write: &[u8]) -> Result<(), SimSpiError> {
        self.0.borrow_mut().push(Ev::OtherSpiOp { what: 2 });
        Ok(())
    }
    fn transfer_in_place(&mut self, _words: &mut [u8]) -> Result<(), SimSpiError> {
        self.0.borrow_mut().push(Ev::OtherSpiOp { what: 3 });
        Ok(())
    }
    fn flush(&mut self) -> Result<(), SimSpiError> {
        let mut b = self.0.borrow_mut();
        let levels = b.levels;
        b.push(Ev::BusFlush { levels, ok: true });
        Ok(())
    }
}

// ---------------- pins ----------------
pub struct SimOut(pub BoardRef, pub Pin);
impl PinErrorType for SimOut {
    type Error = core::convert::Infallible;
}
impl OutputPin for SimOut {
    fn set_low(&mut self) -> Result<(), Self::Error> {
        self.0.borrow_mut().set_pin(self.1, false);
        Ok(())
    }
    fn set_high(&mut self) -> Result<(), Self::Error> {
        self.0.borrow_mut().set_pin(self.1, true);
        Ok(())
    }
}

pub struct SimIn(pub BoardRef, pub Pin);
impl PinErrorType for SimIn {
    type Error = core::convert::Infallible;
}
impl InputPin for SimIn {
    fn is_high(&mut self) -> Result<bool, Self::Error> {
        let r = { self.0.borrow_mut().poll(self.1, true) };
        Ok(r)
    }
    fn is_low(&mut self) -> Result<bool, Self::Error> {
        let r = { self.0.borrow_mut().poll(self.1, false) };
        Ok(r)
    }
}

// ---------------- delay ----------------
#[derive(Clone)]
pub struct SimDelay(pub BoardRef);
impl DelayNs for SimDelay {
    fn delay_ns(&mut self, ns: u32) {
        let mut b = self.0.borrow_mut();
        b.clock_ns += ns as u64;
        b.push(Ev::Delay { ns: ns as u64, unit: 0 });
    }
    fn delay_us(&mut self, us: u32) {
        let mut b = self.0.borrow_mut();
        b.clock_ns += us as u64 * 1000;
        b.push(Ev::Delay { ns: us as u64 * 1000, unit: 1 });
    }
    fn delay_ms(&mut self, ms: u32) {
        let mut b = self.0.borrow_mut();
        b.clock_ns += ms as u64 * 1_000_000;
        b.push(Ev::Delay { ns: ms as u64 * 1_000_000, unit: 2 });
    }
}
