//! Minimal JSON value, writer and parser (no external crates available offline).
use std::collections::BTreeMap;
use std::fmt::Write;

#[derive(Clone, Debug, PartialEq)]
pub enum J {
    Null,
    Bool(bool),
    Int(i64),
    Num(f64),
    Str(String),
    Arr(Vec<J>),
    Obj(BTreeMap<String, J>),
}

impl J {
    pub fn obj() -> J {
        J::Obj(BTreeMap::new())
    }
    pub fn set(mut self, k: &str, v: impl Into<J>) -> J {
        if let J::Obj(m) = &mut self {
            m.insert(k.to_string(), v.into());
        }
        self
    }
    pub fn put(&mut self, k: &str, v: impl Into<J>) {
        if let J::Obj(m) = self {
            m.insert(k.to_string(), v.into());
        }
    }
    pub fn get(&self, k: &str) -> Option<&J> {
        match self {
            J::Obj(m) => m.get(k),
            _ => None,
        }
    }
    pub fn as_str(&self) -> Option<&str> {
        match self {
            J::Str(s) => Some(s),
            _ => None,
        }
    }
    pub fn as_i64(&self) -> Option<i64> {
        match self {
            J::Int(i) => Some(*i),
            J::Num(f) => Some(*f as i64),
            _ => None,
        }
    }
    pub fn as_arr(&self) -> Option<&Vec<J>> {
        match self {
            J::Arr(a) => Some(a),
            _ => None,
        }
    }
    pub fn to_string(&self) -> String {
        let mut s = String::new();
        self.write(&mut s);
        s
    }
    fn write(&self, s: &mut String) {
        match self {
            J::Null => s.push_str("null"),
            J::Bool(b) => s.push_str(if *b { "true" } else { "false" }),
            J::Int(i) => {
                let _ = write!(s, "{}", i);
            }
            J::Num(f) => {
                if f.is_finite() {
                    let _ = write!(s, "{}", f);
                } else {
                    s.push_str("null");
                }
            }
            J::Str(t) => esc(t, s),
            J::Arr(a) => {
                s.push('[');
                for (i, v) in a.iter().enumerate() {
                    if i > 0 {
                        s.push(',');
                    }
                    v.write(s);
                }
                s.push(']');
            }
            J::Obj(m) => {
                s.push('{');
                for (i, (k, v)) in m.iter().enumerate() {
                    if i > 0 {
                        s.push(',');
                    }
                    esc(k, s);
                    s.push(':');
                    v.write(s);
                }
                s.push('}');
            }
        }
    }
}

fn esc(t: &str, s: &mut String) {
    s.push('"');
    for c in t.chars() {
        match c {
            '"' => s.push_str("\\\""),
            '\\' => s.push_str("\\\\"),
            '\n' => s.push_str("\\n"),
            '\r' => s.push_str("\\r"),
            '\t' => s.push_str("\\t"),
            c if (c as u32) < 0x20 => {
                let _ = write!(s, "\\u{:04x}", c as u32);
            }
            c => s.push(c),
        }
    }
    s.push('"');
}

impl From<bool> for J {
    fn from(v: bool) -> J {
        J::Bool(v)
    }
}
impl From<i64> for J {
    fn from(v: i64) -> J {
        J::Int(v)
    }
}
impl From<i32> for J {
    fn from(v: i32) -> J {
        J::Int(v as i64)
    }
}
impl From<u64> for J {
    fn from(v: u64) -> J {
        J::Int(v as i64)
    }
}
impl From<u32> for J {
    fn from(v: u32) -> J {
        J::Int(v as i64)
    }
}
impl From<u8> for J {
    fn from(v: u8) -> J {
        J::Int(v as i64)
    }
}
impl From<usize> for J {
    fn from(v: usize) -> J {
        J::Int(v as i64)
    }
}
impl From<f64> for J {
    fn from(v: f64) -> J {
        J::Num(v)
    }
}
impl From<&str> for J {
    fn from(v: &str) -> J {
        J::Str(v.to_string())
    }
}
impl From<String> for J {
    fn from(v: String) -> J {
        J::Str(v)
    }
}
impl From<&String> for J {
    fn from(v: &String) -> J {
        J::Str(v.clone())
    }
}
impl<T: Into<J>> From<Vec<T>> for J {
    fn from(v: Vec<T>) -> J {
        J::Arr(v.into_iter().map(|x| x.into()).collect())
    }
}
impl<T: Into<J>> From<Option<T>> for J {
    fn from(v: Option<T>) -> J {
        match v {
            Some(x) => x.into(),
            None => J::Null,
        }
    }
}

// ---------------- parser ----------------
pub fn parse(src: &str) -> Result<J, String> {
    let b = src.as_bytes();
    let mut p = 0usize;
    let v = pv(b, &mut p)?;
    ws(b, &mut p);
    if p != b.len() {
        return Err(format!("trailing data at {}", p));
    }
    Ok(v)
}
fn ws(b: &[u8], p: &mut usize) {
    while *p < b.len() && (b[*p] as char).is_ascii_whitespace() {
        *p += 1;
    }
}
fn pv(b: &[u8], p: &mut usize) -> Result<J, String> {
    ws(b, p);
    if *p >= b.len() {
        return Err("eof".into());
    }
    match b[*p] {
        b'{' => {
            *p += 1;
            let mut m = BTreeMap::new();
            ws(b, p);
            if b[*p] == b'}' {
                *p += 1;
                return Ok(J::Obj(m));
            }
            loop {
                ws(b, p);
                let k = match pv(b, p)? {
                    J::Str(s) => s,
                    _ => return Err("key".into()),
                };
                ws(b, p);
                if b[*p] != b':' {
                    return Err("colon".into());
                }
                *p += 1;
                let v = pv(b, p)?;
                m.insert(k, v);
                ws(b, p);
                match b[*p] {
                    b',' => *p += 1,
                    b'}' => {
                        *p += 1;
                        return Ok(J::Obj(m));
                    }
                    _ => return Err("obj sep".into()),
                }
            }
        }
        b'[' => {
            *p += 1;
            let mut a = vec![];
            ws(b, p);
            if b[*p] == b']' {
                *p += 1;
                return Ok(J::Arr(a));
            }
            loop {
                a.push(pv(b, p)?);
                ws(b, p);
                match b[*p] {
                    b',' => *p += 1,
                    b']' => {
                        *p += 1;
                        return Ok(J::Arr(a));
                    }
                    _ => return Err("arr sep".into()),
                }
            }
        }
        b'"' => {
            *p += 1;
            let mut s = String::new();
            while *p < b.len() && b[*p] != b'"' {
                if b[*p] == b'\\' {
                    *p += 1;
                    match b[*p] {
                        b'n' => s.push('\n'),
                        b't' => s.push('\t'),
                        b'r' => s.push('\r'),
                        b'u' => {
                            let h = std::str::from_utf8(&b[*p + 1..*p + 5]).map_err(|e| e.to_string())?;
                            let c = u32::from_str_radix(h, 16).map_err(|e| e.to_string())?;
                            s.push(char::from_u32(c).unwrap_or('?'));
                            *p += 4;
                        }
                        c => s.push(c as char),
                    }
                    *p += 1;
                } else {
                    // copy utf-8 bytes
                    let start = *p;
                    *p += 1;
                    while *p < b.len() && (b[*p] & 0xC0) == 0x80 {
                        *p += 1;
                    }
                    s.push_str(std::str::from_utf8(&b[start..*p]).map_err(|e| e.to_string())?);
                }
            }
            *p += 1;
            Ok(J::Str(s))
        }
        b't' => {
            *p += 4;
            Ok(J::Bool(true))
        }
        b'f' => {
            *p += 5;
            Ok(J::Bool(false))
        }
        b'n' => {
            *p += 4;
            Ok(J::Null)
        }
        _ => {
            let start = *p;
            while *p < b.len() && (b[*p] == b'-' || b[*p] == b'+' || b[*p] == b'.' || b[*p] == b'e' || b[*p] == b'E' || b[*p].is_ascii_digit()) {
                *p += 1;
            }
            let t = std::str::from_utf8(&b[start..*p]).map_err(|e| e.to_string())?;
            if let Ok(i) = t.parse::<i64>() {
                Ok(J::Int(i))
            } else {
                t.parse::<f64>().map(J::Num).map_err(|e| format!("{} at {}", e, start))
            }
        }
    }
}
