#![allow(dead_code, unused_imports, unused_macros, unused_variables)]
mod hal;
mod json;
mod model;
mod ops;
mod p12;
mod panels;
mod prng;
mod proto;
mod report;
mod props;

use json::J;
use std::time::Instant;

pub struct Ctx {
    pub prop: String,
    pub tier_thorough: bool,
    pub seed: u64,
    pub threads: usize,
    pub variant: String,
    pub only_panel: Option<String>,
    pub mode: String,
    pub out: Option<String>,
    pub budget: f64,
    /// (i, n): only cases with index % n == i (used to shard sanitizer runs into short processes)
    pub shard: (usize, usize),
}

fn main() {
    let args: Vec<String> = std::env::args().collect();
    if args.len() < 2 {
        eprintln!("usage: epdmon <property|smoke> [--tier quick|thorough] [--seed N] [--threads N] [--panel name] [--mode m] [--out file]");
        std::process::exit(3);
    }
    let mut ctx = Ctx {
        prop: args[1].clone(),
        tier_thorough: false,
        seed: 1,
        threads: std::thread::available_parallelism().map(|n| n.get()).unwrap_or(4),
        variant: variant_name(),
        only_panel: None,
        mode: String::new(),
        out: None,
        budget: 1.0,
        shard: (0, 1),
    };
    let mut i = 2;
    while i < args.len() {
        let a = args[i].as_str();
        let v = args.get(i + 1).cloned().unwrap_or_default();
        match a {
            "--tier" => ctx.tier_thorough = v == "thorough",
            "--seed" => ctx.seed = v.parse().unwrap_or(1),
            "--threads" => ctx.threads = v.parse().unwrap_or(1),
            "--panel" => ctx.only_panel = Some(v),
            "--mode" => ctx.mode = v,
            "--out" => ctx.out = Some(v),
            "--budget" => ctx.budget = v.parse().unwrap_or(1.0),
            "--shard" => {
                let mut it = v.split('/');
                let i = it.next().and_then(|x| x.parse().ok()).unwrap_or(0);
                let n = it.next().and_then(|x| x.parse().ok()).unwrap_or(1);
                ctx.shard = (i, n);
            }
            _ => {
                eprintln!("unknown argument {}", a);
                std::process::exit(3);
            }
        }
        i += 2;
    }
    panels::install_panic_hook();
    let t0 = Instant::now();
    let rep = props::run(&ctx);
    let Some(mut rep) = rep else {
        eprintln!("unknown property {}", ctx.prop);
        std::process::exit(3);
    };
    let wall = t0.elapsed().as_secs_f64();
    let mut j = rep.to_json();
    j.put("property", ctx.prop.as_str());
    j.put("variant", ctx.variant.as_str());
    j.put("tier", if ctx.tier_thorough { "thorough" } else { "quick" });
    j.put("seed", ctx.seed);
    j.put("mode", ctx.mode.as_str());
    j.put("wall_s", wall);
    j.put("threads", ctx.threads);
    let s = j.to_string();
    match &ctx.out {
        Some(p) => {
            std::fs::write(p, s).expect("write report");
        }
        None => println!("{}", s),
    }
    let nfail: u64 = rep.fail_counts.values().sum();
    eprintln!(
        "[epdmon] {} variant={} evaluations={} nontrivial={} failures={} ({} signatures) inconclusive={} wall={:.1}s",
        ctx.prop,
        ctx.variant,
        rep.evaluations,
        rep.nontrivial.len(),
        nfail,
        rep.fail_counts.len(),
        rep.inconclusive,
        wall
    );
    rep.failures.clear();
    let _ = J::Null;
}

fn variant_name() -> String {
    let mut v = String::new();
    if cfg!(feature = "v2") {
        v.push_str("v2");
    } else {
        v.push_str("v3");
    }
    if cfg!(feature = "altlut") {
        v.push_str("+altlut");
    }
    v
}
