//! Executable controller models (SSD16xx, UC81xx, ACeP) written from the controller datasheets.
//! They interpret the (D/C, byte) stream, reconstruct RAM planes / registers / power state, and
//! record anomalies instead of asserting: each property's monitor decides which anomalies matter.
use std::collections::BTreeMap;

#[derive(Clone, Copy, Debug, PartialEq, Eq)]
pub enum Family {
    Ssd,
    Uc,
    Acep,
}

#[derive(Clone, Copy, Debug, PartialEq, Eq)]
pub enum WinFmt {
    None,
    /// HRST(2) HRED(2) VRST(2) VRED(2) PT_SCAN  (UC8176 / UC8179)
    W9,
    /// HRST HRED VRST(2) VRED(2) PT_SCAN (UC8151D)
    W7,
    /// HRST HRED VRST VRED PT_SCAN (UC8175)
    W5,
}

#[derive(Clone, Debug)]
pub struct CtrlCfg {
    pub family: Family,
    /// panel resolution in pixels (what the glass shows)
    pub width: u32,
    pub height: u32,
    /// SSD: physical RAM row length in bytes and number of rows (>= panel)
    pub ram_w_bytes: u32,
    pub ram_rows: u32,
    /// SSD1677-style: X window/counter parameters are 2 bytes in pixel units
    pub x_pixel_units: bool,
    /// UC/ACeP: bits per pixel of DTM1 / DTM2
    pub bpp1: u32,
    pub bpp2: u32,
    pub win_fmt: WinFmt,
    /// 2.7in style 0x14/0x15/0x16 partial commands with 8-byte x,y,w,l header
    pub has_xywl_partial: bool,
    /// datasheet polarity: BUSY asserted = low
    pub busy_low: bool,
    /// ACeP: BUSY is held asserted after POF until the next PON / reset
    pub busy_held_after_pof: bool,
    /// vendor reference sleep sequence of the panel ends with the UC-style 0x07 0xA5 although the
    /// controller is an SSD part (3in7)
    pub vendor_uc_sleep: bool,
    /// the driver waits for the *start* of the power-off busy pulse (5in65f wait_busy_low): unless a
    /// check explores shorter pulses explicitly, the pulse is visible to at least this many polls
    pub pof_pulse_floor: u32,
}

#[derive(Clone, Copy, Debug, PartialEq, Eq)]
pub enum Power {
    /// after hardware reset, booster off
    Reset,
    On,
    Off,
}

#[derive(Clone, Debug)]
pub struct Plane {
    pub row_bytes: u32,
    pub rows: u32,
    pub data: Vec<u8>,
    pub wc: Vec<u16>,
    /// total data bytes accepted since mark
    pub writes: u64,
    /// complete controller-side pattern fills since mark
    pub pattern_fills: u32,
}
impl Plane {
    fn new(row_bytes: u32, rows: u32) -> Plane {
        let n = (row_bytes * rows) as usize;
        Plane { row_bytes, rows, data: vec![0xA5; n], wc: vec![0; n], writes: 0, pattern_fills: 0 }
    }
    pub fn mark(&mut self) {
        for w in self.wc.iter_mut() {
            *w = 0;
        }
        self.writes = 0;
        self.pattern_fills = 0;
    }
    fn store(&mut self, idx: usize, v: u8) {
        self.data[idx] = v;
        self.wc[idx] = self.wc[idx].saturating_add(1);
        self.writes += 1;
    }
    pub fn get(&self, xb: u32, y: u32) -> u8 {
        self.data[(y * self.row_bytes + xb) as usize]
    }
    pub fn wcount(&self, xb: u32, y: u32) -> u16 {
        self.wc[(y * self.row_bytes + xb) as usize]
    }
}

#[derive(Clone, Debug)]
pub struct CmdRec {
    pub op: u8,
    pub nparams: u32,
    /// first bytes of the parameter / data stream (capped)
    pub params: Vec<u8>,
    pub hash: u64,
    /// index of the API operation during which this command started
    pub opidx: u32,
    /// controller was asleep when the command arrived (ignored by the controller)
    pub asleep: bool,
}
pub const PARAM_CAP: usize = 256;

#[derive(Clone, Debug)]
pub struct RefreshEv {
    pub cmd_index: usize,
    pub opidx: u32,
    pub power: Power,
    pub asleep: bool,
    pub written: [u64; 4],
    pub busy_refresh_active: bool,
    pub partial_mode: bool,
    pub partial_refresh: bool,
    /// hash of LUT registers resident at this refresh
    pub lut_hash: u64,
}

#[derive(Clone, Debug, PartialEq, Eq)]
pub struct Anomaly {
    pub kind: &'static str,
    pub op: u8,
    pub opidx: u32,
    pub a: i64,
    pub b: i64,
}

#[derive(Clone, Debug, Default)]
pub struct BusyGen {
    /// polls remaining while asserted
    pub left: u32,
    pub refresh: bool,
    /// held asserted until next PON / reset (ACeP after POF)
    pub held: bool,
    /// polls until the held assertion starts
    pub held_in: u32,
    pub schedule: Vec<u32>,
    pub pos: usize,
    pub default_d: u32,
    /// explore power-off pulses shorter than ChipCfg::pof_pulse_floor (C05 does)
    pub pof_floor_off: bool,
    pub episodes: u32,
    pub refresh_episodes_nonzero: u32,
}
impl BusyGen {
    fn next_d(&mut self) -> u32 {
        let d = if self.pos < self.schedule.len() { self.schedule[self.pos] } else { self.default_d };
        self.pos += 1;
        d
    }
    fn raise(&mut self, refresh: bool) {
        self.raise_min(refresh, 0)
    }
    fn raise_min(&mut self, refresh: bool, floor: u32) {
        let d = self.next_d().max(floor);
        self.episodes += 1;
        if refresh && d > 0 {
            self.refresh_episodes_nonzero += 1;
        }
        let keep_refresh = self.left > 0 && self.refresh;
        self.refresh = keep_refresh || (refresh && d > 0);
        if d > self.left {
            self.left = d;
        }
    }
    pub fn active(&self) -> bool {
        self.left > 0 || (self.held && self.held_in == 0)
    }
    pub fn refresh_active(&self) -> bool {
        self.left > 0 && self.refresh
    }
    fn poll(&mut self) -> bool {
        let a = self.active();
        if self.left > 0 {
            self.left -= 1;
            if self.left == 0 {
                self.refresh = false;
            }
        }
        if self.held && self.held_in > 0 {
            self.held_in -= 1;
        }
        a
    }
    fn clear(&mut self) {
        self.left = 0;
        self.refresh = false;
        self.held = false;
        self.held_in = 0;
    }
}

#[derive(Clone, Debug)]
pub struct Ctrl {
    pub cfg: CtrlCfg,
    pub planes: [Plane; 2],
    pub power: Power,
    pub asleep: bool,
    pub resets: u32,
    pub cur: Option<usize>,
    pub cmds: Vec<CmdRec>,
    pub opidx: u32,
    /// opcodes written since last hardware / software reset
    pub written: [u64; 4],
    /// last parameter block per opcode since the last hardware reset (non-RAM, non-LUT)
    pub regs: BTreeMap<u8, Vec<u8>>,
    pub luts: BTreeMap<u8, Vec<u8>>,
    pub lut_uploads: Vec<(u8, u64, u32, u32)>, // opcode, hash, len, opidx
    pub refreshes: Vec<RefreshEv>,
    pub anomalies: Vec<Anomaly>,
    pub anomaly_counts: BTreeMap<&'static str, u64>,
    pub busy: BusyGen,
    pub busy_violations: Vec<(&'static str, u8, u32)>,
    pub ignored_asleep: u64,
    /// (operation index, opcode) of refresh triggers received in deep sleep
    pub triggers_while_asleep: Vec<(u32, u8)>,
    /// experiment / C01 busy contexts: a controller that does not latch commands received while BUSY is asserted
    pub drop_while_busy: bool,
    pub dropped_while_busy: u64,
    // --- SSD addressing
    pub xs: u32,
    pub xe: u32,
    pub ys: u32,
    pub ye: u32,
    pub xc: u32,
    pub yc: u32,
    pub entry: u8,
    pub update_ctrl2: u8,
    /// at each RAM write command: (opidx, xs, xe, ys, ye, xc, yc, ram opcode)
    pub windows_programmed: Vec<(u32, u32, u32, u32, u32, u32, u32, u8)>,
    // --- UC addressing
    pub partial_mode: bool,
    pub pwin: (u32, u32, u32, u32), // hrst, hred, vrst, vred (pixels, inclusive)
    pub pwin_set: bool,
    pub ptr: u64, // byte offset inside current area for DTM
    pub area: (u32, u32, u32, u32), // x byte offset, y, row bytes, rows of current data command
    pub data_bytes_cur: u64,
    pub xywl_hdr: Vec<u8>,
    /// decoded windows programmed via 0x90 / 0x14 / 0x15 / 0x16 (opidx, op, x, y, w, h)
    pub uc_windows: Vec<(u32, u8, u32, u32, u32, u32)>,
    soft_finished: bool,
}

fn bit_set(b: &mut [u64; 4], op: u8) {
    b[(op >> 6) as usize] |= 1u64 << (op & 63);
}
pub fn bit_get(b: &[u64; 4], op: u8) -> bool {
    b[(op >> 6) as usize] & (1u64 << (op & 63)) != 0
}

fn fnv(h: u64, b: u8) -> u64 {
    (h ^ b as u64).wrapping_mul(0x100000001b3)
}

impl Ctrl {
    pub fn new(cfg: CtrlCfg) -> Ctrl {
        let (p0, p1) = match cfg.family {
            Family::Ssd => (Plane::new(cfg.ram_w_bytes, cfg.ram_rows), Plane::new(cfg.ram_w_bytes, cfg.ram_rows)),
            _ => (
                Plane::new((cfg.width * cfg.bpp1 + 7) / 8, cfg.height),
                Plane::new((cfg.width * cfg.bpp2 + 7) / 8, cfg.height),
            ),
        };
        let mut c = Ctrl {
            cfg,
            planes: [p0, p1],
            power: Power::Reset,
            asleep: false,
            resets: 0,
            cur: None,
            cmds: Vec::new(),
            opidx: 0,
            written: [0; 4],
            regs: BTreeMap::new(),
            luts: BTreeMap::new(),
            lut_uploads: Vec::new(),
            refreshes: Vec::new(),
            anomalies: Vec::new(),
            anomaly_counts: BTreeMap::new(),
            busy: BusyGen::default(),
            busy_violations: Vec::new(),
            ignored_asleep: 0,
            triggers_while_asleep: Vec::new(),
            drop_while_busy: false,
            dropped_while_busy: 0,
            xs: 0,
            xe: 0,
            ys: 0,
            ye: 0,
            xc: 0,
            yc: 0,
            entry: 3,
            update_ctrl2: 0xFF,
            windows_programmed: Vec::new(),
            partial_mode: false,
            pwin: (0, 0, 0, 0),
            pwin_set: false,
            ptr: 0,
            area: (0, 0, 0, 0),
            data_bytes_cur: 0,
            xywl_hdr: Vec::new(),
            uc_windows: Vec::new(),
            soft_finished: false,
        };
        c.por_registers();
        c
    }

    fn por_registers(&mut self) {
        self.xs = 0;
        self.xe = self.cfg.ram_w_bytes.saturating_sub(1);
        self.ys = 0;
        self.ye = self.cfg.ram_rows.saturating_sub(1);
        self.xc = 0;
        self.yc = 0;
        self.entry = 3;
        self.update_ctrl2 = 0xFF;
        self.partial_mode = false;
        self.pwin_set = false;
        self.pwin = (0, 0, 0, 0);
    }

    pub fn anomaly(&mut self, kind: &'static str, op: u8, a: i64, b: i64) {
        *self.anomaly_counts.entry(kind).or_insert(0) += 1;
        if self.anomalies.len() < 256 {
            let an = Anomaly { kind, op, opidx: self.opidx, a, b };
            self.anomalies.push(an);
        }
    }
    pub fn anomaly_count(&self, kind: &str) -> u64 {
        self.anomaly_counts.iter().filter(|(k, _)| **k == kind).map(|(_, v)| *v).sum()
    }

    pub fn op_begin(&mut self) {
        self.opidx += 1;
    }
    pub fn op_end(&mut self) {
        // registers / LUTs of the command in flight become visible to snapshots, but the command
        // stays open: data sent at the start of the next call still belongs to it on the wire.
        self.finish_cmd_soft();
    }

    pub fn mark(&mut self) {
        self.planes[0].mark();
        self.planes[1].mark();
    }

    pub fn hw_reset(&mut self) {
        self.finish_cmd();
        self.resets += 1;
        self.asleep = false;
        self.power = Power::Reset;
        self.written = [0; 4];
        self.regs.clear();
        self.cur = None;
        self.por_registers();
        self.busy.clear();
        self.busy.raise(false);
    }

    /// returns (busy asserted, low_active)
    pub fn busy_low(&self) -> bool {
        self.cfg.busy_low
    }

    pub fn busy_poll(&mut self) -> (bool, bool) {
        (self.busy.poll(), self.cfg.busy_low)
    }

    pub fn lut_hash(&self) -> u64 {
        let mut h = 0xcbf29ce484222325u64;
        for (k, v) in &self.luts {
            h = fnv(h, *k);
            for b in v {
                h = fnv(h, *b);
            }
        }
        h
    }

    /// snapshot of configuration registers (C08): opcode -> last parameter block since the last
    /// hardware reset; RAM-data and LUT commands are excluded by construction.
    pub fn reg_snapshot(&self) -> BTreeMap<u8, Vec<u8>> {
        self.regs.clone()
    }

    fn is_ram_cmd(&self, op: u8) -> Option<usize> {
        match self.cfg.family {
            Family::Ssd => match op {
                0x24 => Some(0),
                0x26 => Some(1),
                _ => None,
            },
            Family::Uc | Family::Acep => match op {
                0x10 => Some(0),
                0x13 if self.cfg.family == Family::Uc => Some(1),
                0x14 if self.cfg.has_xywl_partial => Some(0),
                0x15 if self.cfg.has_xywl_partial => Some(1),
                _ => None,
            },
        }
    }
    fn is_lut_cmd(&self, op: u8) -> bool {
        match self.cfg.family {
            Family::Ssd => op == 0x32,
            Family::Uc => (0x20..=0x29).contains(&op),
            Family::Acep => (0x20..=0x29).contains(&op),
        }
    }

    fn record_refresh(&mut self, partial_refresh: bool) {
        let ev = RefreshEv {
            cmd_index: self.cmds.len().saturating_sub(1),
            opidx: self.opidx,
            power: self.power,
            asleep: self.asleep,
            written: self.written,
            busy_refresh_active: self.busy.refresh_active(),
            partial_mode: self.partial_mode,
            partial_refresh,
            lut_hash: self.lut_hash(),
        };
        if ev.busy_refresh_active {
            self.busy_violations.push(("refresh-during-refresh", self.cmds.last().map(|c| c.op).unwrap_or(0), self.opidx));
        }
        self.refreshes.push(ev);
        self.busy.raise(true);
    }

    fn finish_cmd_soft(&mut self) {
        let keep = self.cur;
        self.finish_cmd();
        self.cur = keep;
        if keep.is_some() {
            self.soft_finished = true;
        }
    }

    /// called when the current command ends (next command byte, op end, reset)
    fn finish_cmd(&mut self) {
        let Some(ci) = self.cur.take() else { return };
        if self.soft_finished {
            // already accounted for at the end of the previous call and no data arrived since
            self.soft_finished = false;
            return;
        }
        let op = self.cmds[ci].op;
        let n = self.cmds[ci].nparams;
        if self.cmds[ci].asleep {
            return;
        }
        if let Some(_p) = self.is_ram_cmd(op) {
            match self.cfg.family {
                Family::Ssd => {}
                _ => {
                    // UC: compare the amount of data with the addressed area
                    let area_bytes = self.area.2 as u64 * self.area.3 as u64;
                    let hdr = if op == 0x14 || op == 0x15 { 8 } else { 0 };
                    let got = (n as u64).saturating_sub(hdr);
                    if n as u64 >= hdr && got > 0 && got < area_bytes {
                        self.anomaly("short-data", op, got as i64, area_bytes as i64);
                    }
                }
            }
        } else if self.is_lut_cmd(op) {
            let v = self.cmds[ci].params.clone();
            let h = self.cmds[ci].hash;
            self.lut_uploads.push((op, h, n, self.cmds[ci].opidx));
            self.luts.insert(op, v);
        } else {
            let v = self.cmds[ci].params.clone();
            self.regs.insert(op, v);
        }
    }

    pub fn feed(&mut self, dc: bool, data: &[u8]) {
        if !dc {
            for &b in data {
                self.command(b);
            }
        } else {
            for &b in data {
                self.data(b);
            }
        }
    }

    fn command(&mut self, op: u8) {
        self.finish_cmd();
        let mut asleep = self.asleep;
        if self.drop_while_busy && self.busy.active() {
            // not latched: the command and its parameters are lost
            self.dropped_while_busy += 1;
            asleep = true;
        }
        self.cmds.push(CmdRec { op, nparams: 0, params: Vec::new(), hash: 0xcbf29ce484222325, opidx: self.opidx, asleep });
        self.cur = Some(self.cmds.len() - 1);
        if asleep {
            self.ignored_asleep += 1;
            // a refresh trigger that reaches a controller in deep sleep has no effect, but that it was sent is
            // what C09 is about: remembered apart from the effective refreshes
            let trigger = match self.cfg.family {
                Family::Ssd => op == 0x20,
                Family::Uc | Family::Acep => op == 0x12,
            };
            if self.asleep && trigger {
                self.triggers_while_asleep.push((self.opidx, op));
            }
            return;
        }
        bit_set(&mut self.written, op);
        match self.cfg.family {
            Family::Ssd => self.ssd_command(op),
            Family::Uc | Family::Acep => self.uc_command(op),
        }
    }

    fn data(&mut self, b: u8) {
        let Some(ci) = self.cur else {
            self.anomaly("data-without-command", 0, b as i64, 0);
            return;
        };
        if self.soft_finished {
            // more data for a command that was in flight when the previous call returned
            self.soft_finished = false;
            let op = self.cmds[ci].op;
            if self.is_lut_cmd(op) {
                self.lut_uploads.pop();
            }
        }
        let (op, idx) = {
            let c = &mut self.cmds[ci];
            let idx = c.nparams;
            c.nparams += 1;
            if c.params.len() < PARAM_CAP {
                c.params.push(b);
            }
            c.hash = fnv(c.hash, b);
            (c.op, idx)
        };
        if self.cmds[ci].asleep {
            self.ignored_asleep += 1;
            return;
        }
        match self.cfg.family {
            Family::Ssd => self.ssd_data(op, idx, b),
            Family::Uc | Family::Acep => self.uc_data(op, idx, b),
        }
    }

    // ------------------------------------------------------------------ SSD16xx
    fn ssd_command(&mut self, op: u8) {
        match op {
            0x12 => {
                // software reset: registers to POR, RAM kept
                self.por_registers();
                self.written = [0; 4];
                bit_set(&mut self.written, 0x12);
                self.busy.raise(false);
            }
            0x20 => {
                // master activation, interpreted through display update control 2
                let is_display = self.update_ctrl2 & 0x04 != 0;
                if is_display {
                    self.record_refresh(false);
                } else {
                    self.busy.raise(false);
                }
            }
            0x24 | 0x26 => {
                if self.busy.refresh_active() {
                    // flagged per data byte below; nothing here
                }
                self.windows_programmed.push((self.opidx, self.xs, self.xe, self.ys, self.ye, self.xc, self.yc, op));
                self.data_bytes_cur = 0;
            }
            _ => {}
        }
    }

    fn param(&self, ci: usize, i: usize) -> u32 {
        self.cmds[ci].params.get(i).copied().unwrap_or(0) as u32
    }

    fn ssd_data(&mut self, op: u8, idx: u32, b: u8) {
        let ci = self.cur.unwrap();
        match op {
            0x24 | 0x26 => {
                if self.busy.refresh_active() {
                    if self.busy_violations.len() < 64 {
                        self.busy_violations.push(("image-data-during-refresh", op, self.opidx));
                    }
                }
                let p = if op == 0x24 { 0 } else { 1 };
                self.ssd_ram_write(p, op, b);
            }
            0x10 => {
                if idx == 0 && (b & 0x03) != 0 {
                    self.asleep = true;
                }
            }
            0x07 if self.cfg.vendor_uc_sleep => {
                if idx == 0 && b == 0xA5 {
                    self.asleep = true;
                }
            }
            0x11 => {
                if idx == 0 {
                    self.entry = b & 0x07;
                }
            }
            0x22 => {
                if idx == 0 {
                    self.update_ctrl2 = b;
                }
            }
            0x44 => {
                if self.cfg.x_pixel_units {
                    if idx == 1 {
                        self.xs = (self.param(ci, 0) | (self.param(ci, 1) << 8)) >> 3;
                    } else if idx == 3 {
                        self.xe = (self.param(ci, 2) | (self.param(ci, 3) << 8)) >> 3;
                    }
                } else if idx == 0 {
                    self.xs = b as u32;
                } else if idx == 1 {
                    self.xe = b as u32;
                }
            }
            0x45 => {
                if idx == 1 {
                    self.ys = self.param(ci, 0) | (self.param(ci, 1) << 8);
                } else if idx == 3 {
                    self.ye = self.param(ci, 2) | (self.param(ci, 3) << 8);
                }
            }
            0x4E => {
                if self.cfg.x_pixel_units {
                    if idx == 1 {
                        self.xc = (self.param(ci, 0) | (self.param(ci, 1) << 8)) >> 3;
                    }
                } else if idx == 0 {
                    self.xc = b as u32;
                }
            }
            0x4F => {
                if idx == 1 {
                    self.yc = self.param(ci, 0) | (self.param(ci, 1) << 8);
                }
            }
            0x46 | 0x47 => {
                if idx == 0 {
                    // controller-side regular pattern fill of the whole plane; the pattern byte
                    // encodes the first-step value in bit 7
                    let p = if op == 0x46 { 1 } else { 0 };
                    let v = if b & 0x80 != 0 { 0xFF } else { 0x00 };
                    let pl = &mut self.planes[p];
                    for i in 0..pl.data.len() {
                        pl.data[i] = v;
                        pl.wc[i] = pl.wc[i].saturating_add(1);
                    }
                    pl.pattern_fills += 1;
                    self.busy.raise(false);
                }
            }
            _ => {}
        }
    }

    fn ssd_ram_write(&mut self, p: usize, op: u8, b: u8) {
        let rw = self.cfg.ram_w_bytes;
        let rr = self.cfg.ram_rows;
        // counter outside the window at write time?
        let (xlo, xhi) = (self.xs.min(self.xe), self.xs.max(self.xe));
        let (ylo, yhi) = (self.ys.min(self.ye), self.ys.max(self.ye));
        if self.xc < xlo || self.xc > xhi || self.yc < ylo || self.yc > yhi {
            self.anomaly("counter-outside-window", op, self.xc as i64, self.yc as i64);
        }
        if self.xc < rw && self.yc < rr {
            let idx = (self.yc * rw + self.xc) as usize;
            self.planes[p].store(idx, b);
        } else {
            self.anomaly("write-outside-ram", op, self.xc as i64, self.yc as i64);
        }
        self.data_bytes_cur += 1;
        // advance
        let x_inc = self.entry & 1 != 0;
        let y_inc = self.entry & 2 != 0;
        let y_major = self.entry & 4 != 0;
        // the counter moves from the "start" bound towards the "end" bound in the direction of
        // the entry mode (in decrement mode the start register holds the larger address); when it
        // reaches the end bound it wraps to the start bound.
        let (x_first_end, x_start) = if x_inc { (xhi, xlo) } else { (xlo, xhi) };
        let (y_first_end, y_start) = if y_inc { (yhi, ylo) } else { (ylo, yhi) };
        let step = |c: u32, inc: bool, modulo: u32| -> u32 {
            if inc {
                (c + 1) % modulo.max(1)
            } else {
                (c + modulo.max(1) - 1) % modulo.max(1)
            }
        };
        // address space of the counters: X 0..=63 bytes (6 bit) or more on big parts; use 1024 / 4096 spans
        let xmod = 1024;
        let ymod = 4096;
        if !y_major {
            if self.xc == x_first_end {
                self.xc = x_start;
                if self.yc == y_first_end {
                    self.yc = y_start;
                } else {
                    self.yc = step(self.yc, y_inc, ymod);
                }
            } else {
                self.xc = step(self.xc, x_inc, xmod);
            }
        } else if self.yc == y_first_end {
            self.yc = y_start;
            if self.xc == x_first_end {
                self.xc = x_start;
            } else {
                self.xc = step(self.xc, x_inc, xmod);
            }
        } else {
            self.yc = step(self.yc, y_inc, ymod);
        }
    }

    // ------------------------------------------------------------------ UC81xx / ACeP
    fn uc_full_area(&self, p: usize) -> (u32, u32, u32, u32) {
        (0, 0, self.planes[p].row_bytes, self.planes[p].rows)
    }

    fn uc_command(&mut self, op: u8) {
        match op {
            0x02 => {
                self.power = Power::Off;
                if self.cfg.busy_held_after_pof {
                    let d = self.busy.next_d();
                    self.busy.episodes += 1;
                    self.busy.held = true;
                    self.busy.held_in = d;
                } else {
                    let floor = if self.busy.pof_floor_off { 0 } else { self.cfg.pof_pulse_floor };
                    self.busy.raise_min(false, floor);
                }
            }
            0x04 => {
                self.power = Power::On;
                self.busy.held = false;
                self.busy.held_in = 0;
                self.busy.raise(false);
            }
            0x12 => {
                self.record_refresh(false);
            }
            0x91 => {
                self.partial_mode = true;
            }
            0x92 => {
                self.partial_mode = false;
            }
            0x10 | 0x13 => {
                if let Some(p) = self.is_ram_cmd(op) {
                    let bpp = if p == 0 { self.cfg.bpp1 } else { self.cfg.bpp2 };
                    if self.partial_mode && self.pwin_set {
                        let (hs, he, vs, ve) = self.pwin;
                        let w = he.saturating_sub(hs) + 1;
                        let h = ve.saturating_sub(vs) + 1;
                        self.area = (hs * bpp / 8, vs, (w * bpp + 7) / 8, h);
                    } else {
                        if self.partial_mode && !self.pwin_set {
                            self.anomaly("partial-mode-without-window", op, 0, 0);
                        }
                        self.area = self.uc_full_area(p);
                    }
                    self.ptr = 0;
                    self.data_bytes_cur = 0;
                }
            }
            0x14 | 0x15 => {
                self.xywl_hdr.clear();
                self.ptr = 0;
                self.area = (0, 0, 0, 0);
            }
            _ => {}
        }
    }

    fn uc_store(&mut self, p: usize, op: u8, b: u8) {
        let (xb, y0, rb, rows) = self.area;
        let total = rb as u64 * rows as u64;
        if self.busy.refresh_active() && self.busy_violations.len() < 64 {
            self.busy_violations.push(("image-data-during-refresh", op, self.opidx));
        }
        if self.ptr >= total {
            self.anomaly("excess-data", op, self.ptr as i64, b as i64);
            self.ptr += 1;
            return;
        }
        let r = (self.ptr / rb as u64) as u32;
        let c = (self.ptr % rb as u64) as u32;
        let x = xb + c;
        let y = y0 + r;
        let pl = &mut self.planes[p];
        if x < pl.row_bytes && y < pl.rows {
            let idx = (y * pl.row_bytes + x) as usize;
            pl.store(idx, b);
        } else {
            self.anomaly("write-outside-ram", op, x as i64, y as i64);
        }
        self.ptr += 1;
    }

    fn uc_data(&mut self, op: u8, idx: u32, b: u8) {
        let ci = self.cur.unwrap();
        match op {
            0x10 | 0x13 => {
                if let Some(p) = self.is_ram_cmd(op) {
                    self.uc_store(p, op, b);
                }
            }
            0x14 | 0x15 if self.cfg.has_xywl_partial => {
                if idx < 8 {
                    self.xywl_hdr.push(b);
                    if idx == 7 {
                        let h = &self.xywl_hdr;
                        let x = ((h[0] as u32) << 8) | h[1] as u32;
                        let y = ((h[2] as u32) << 8) | h[3] as u32;
                        let w = ((h[4] as u32) << 8) | h[5] as u32;
                        let l = ((h[6] as u32) << 8) | h[7] as u32;
                        self.uc_windows.push((self.opidx, op, x, y, w, l));
                        self.area = (x / 8, y, (w + 7) / 8, l);
                        self.ptr = 0;
                    }
                } else {
                    let p = if op == 0x14 { 0 } else { 1 };
                    self.uc_store(p, op, b);
                }
            }
            0x16 if self.cfg.has_xywl_partial => {
                if idx == 7 {
                    let g = |i: usize| self.param(ci, i);
                    let x = (g(0) << 8) | g(1);
                    let y = (g(2) << 8) | g(3);
                    let w = (g(4) << 8) | g(5);
                    let l = (g(6) << 8) | g(7);
                    self.uc_windows.push((self.opidx, op, x, y, w, l));
                    self.record_refresh(true);
                }
            }
            0x07 => {
                if idx == 0 && b == 0xA5 {
                    self.asleep = true;
                    self.power = Power::Off;
                }
            }
            0x90 => {
                let g = |i: usize| self.param(ci, i);
                match self.cfg.win_fmt {
                    WinFmt::W9 => {
                        if idx == 7 {
                            let hs = ((g(0) << 8) | g(1)) & !7;
                            let he = ((g(2) << 8) | g(3)) | 7;
                            let vs = (g(4) << 8) | g(5);
                            let ve = (g(6) << 8) | g(7);
                            self.pwin = (hs, he, vs, ve);
                            self.pwin_set = true;
                            self.uc_windows.push((self.opidx, op, hs, vs, he.wrapping_sub(hs).wrapping_add(1), ve.wrapping_sub(vs).wrapping_add(1)));
                        }
                    }
                    WinFmt::W7 => {
                        if idx == 5 {
                            let hs = g(0) & !7;
                            let he = g(1) | 7;
                            let vs = (g(2) << 8) | g(3);
                            let ve = (g(4) << 8) | g(5);
                            self.pwin = (hs, he, vs, ve);
                            self.pwin_set = true;
                            self.uc_windows.push((self.opidx, op, hs, vs, he.wrapping_sub(hs).wrapping_add(1), ve.wrapping_sub(vs).wrapping_add(1)));
                        }
                    }
                    WinFmt::W5 => {
                        if idx == 3 {
                            let hs = g(0) & !7;
                            let he = g(1) | 7;
                            let vs = g(2);
                            let ve = g(3);
                            self.pwin = (hs, he, vs, ve);
                            self.pwin_set = true;
                            self.uc_windows.push((self.opidx, op, hs, vs, he.wrapping_sub(hs).wrapping_add(1), ve.wrapping_sub(vs).wrapping_add(1)));
                        }
                    }
                    WinFmt::None => {}
                }
            }
            _ => {}
        }
    }

    // ------------------------------------------------------------------ queries
    /// hash of the addressing-relevant state (for distinct-state counting)
    pub fn state_hash(&self) -> u64 {
        let mut h = 0xcbf29ce484222325u64;
        for v in [self.xs, self.xe, self.ys, self.ye, self.xc, self.yc, self.entry as u32, self.partial_mode as u32, self.pwin.0, self.pwin.1, self.pwin.2, self.pwin.3, self.asleep as u32, self.power as u32, self.update_ctrl2 as u32] {
            for b in v.to_le_bytes() {
                h = fnv(h, b);
            }
        }
        h
    }
}
