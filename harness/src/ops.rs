//! Operation alphabet shared by all history-driven monitors, image descriptors, windows, buffers.
use crate::json::J;
use crate::prng::mix64;
use std::sync::Arc;

#[derive(Clone, Copy, Debug, PartialEq, Eq, Hash, PartialOrd, Ord)]
pub enum K {
    WakeUp,
    Sleep,
    UpdateFrame,
    UpdateAndDisplay,
    Display,
    Clear,
    SetBg,
    SetLut,
    WaitIdle,
    UpdatePartial,
    UpdateColor,
    Achromatic,
    Chromatic,
    UpdateOld,
    UpdateNew,
    DisplayNew,
    UpdateAndDisplayNew,
    PartialOld,
    PartialNew,
    ClearPartial,
    // panel specific
    SetRefresh,        // 2in13_v2: arg 1 full / 2 quick
    SetPartialBase,    // 2in13_v2
    SetDeepSleepMode,  // 2in13_v2 / 2in13b_v4: arg 1 / 2
    SetBorder,         // 2in13bc / 2in9bc: arg colour
    PartialAchromatic, // 2in7b
    PartialChromatic,  // 2in7b
    DisplayPartial,    // 2in7b (window) / 2in9b_v4 display_frame_partial
    UpdateAndDisplayBase, // 2in9b_v4
    UpdatePartial2,    // 7in5b_v2
    Show7Block,        // 7in3f
    ClearAchromatic,   // 2in13b_v4
    ClearChromatic,    // 2in13b_v4
}

impl K {
    pub fn name(self) -> &'static str {
        match self {
            K::WakeUp => "wake_up",
            K::Sleep => "sleep",
            K::UpdateFrame => "update_frame",
            K::UpdateAndDisplay => "update_and_display_frame",
            K::Display => "display_frame",
            K::Clear => "clear_frame",
            K::SetBg => "set_background_color",
            K::SetLut => "set_lut",
            K::WaitIdle => "wait_until_idle",
            K::UpdatePartial => "update_partial_frame",
            K::UpdateColor => "update_color_frame",
            K::Achromatic => "update_achromatic_frame",
            K::Chromatic => "update_chromatic_frame",
            K::UpdateOld => "update_old_frame",
            K::UpdateNew => "update_new_frame",
            K::DisplayNew => "display_new_frame",
            K::UpdateAndDisplayNew => "update_and_display_new_frame",
            K::PartialOld => "update_partial_old_frame",
            K::PartialNew => "update_partial_new_frame",
            K::ClearPartial => "clear_partial_frame",
            K::SetRefresh => "set_refresh",
            K::SetPartialBase => "set_partial_base_buffer",
            K::SetDeepSleepMode => "set_deep_sleep_mode",
            K::SetBorder => "set_border_color",
            K::PartialAchromatic => "update_partial_achromatic_frame",
            K::PartialChromatic => "update_partial_chromatic_frame",
            K::DisplayPartial => "display_partial_frame",
            K::UpdateAndDisplayBase => "update_and_display_frame_base",
            K::UpdatePartial2 => "update_partial_frame2",
            K::Show7Block => "show_7block",
            K::ClearAchromatic => "clear_achromatic_frame",
            K::ClearChromatic => "clear_chromatic_frame",
        }
    }
    pub fn from_name(s: &str) -> Option<K> {
        ALL_K.iter().copied().find(|k| k.name() == s)
    }
}
pub const ALL_K: &[K] = &[
    K::WakeUp,
    K::Sleep,
    K::UpdateFrame,
    K::UpdateAndDisplay,
    K::Display,
    K::Clear,
    K::SetBg,
    K::SetLut,
    K::WaitIdle,
    K::UpdatePartial,
    K::UpdateColor,
    K::Achromatic,
    K::Chromatic,
    K::UpdateOld,
    K::UpdateNew,
    K::DisplayNew,
    K::UpdateAndDisplayNew,
    K::PartialOld,
    K::PartialNew,
    K::ClearPartial,
    K::SetRefresh,
    K::SetPartialBase,
    K::SetDeepSleepMode,
    K::SetBorder,
    K::PartialAchromatic,
    K::PartialChromatic,
    K::DisplayPartial,
    K::UpdateAndDisplayBase,
    K::UpdatePartial2,
    K::Show7Block,
    K::ClearAchromatic,
    K::ClearChromatic,
];

#[derive(Clone, Debug, PartialEq)]
pub enum Img {
    None,
    /// byte i = mix(i, salt): position coded
    Coded { salt: u32, len: usize },
    /// byte i = (v + 37 i) mod 256
    Sweep { v: u8, len: usize },
    Const { b: u8, len: usize },
    Bytes(Arc<Vec<u8>>),
}

pub fn coded_byte(i: usize, salt: u32) -> u8 {
    (mix64((i as u64) << 20 ^ salt as u64) >> 24) as u8
}

impl Img {
    pub fn len(&self) -> usize {
        match self {
            Img::None => 0,
            Img::Coded { len, .. } | Img::Sweep { len, .. } | Img::Const { len, .. } => *len,
            Img::Bytes(b) => b.len(),
        }
    }
    pub fn make(&self) -> Vec<u8> {
        match self {
            Img::None => Vec::new(),
            Img::Coded { salt, len } => (0..*len).map(|i| coded_byte(i, *salt)).collect(),
            Img::Sweep { v, len } => (0..*len).map(|i| (*v as usize + 37 * i) as u8).collect(),
            Img::Const { b, len } => vec![*b; *len],
            Img::Bytes(b) => (**b).clone(),
        }
    }
    pub fn to_json(&self) -> J {
        match self {
            Img::None => J::Null,
            Img::Coded { salt, len } => J::obj().set("coded", *salt).set("len", *len),
            Img::Sweep { v, len } => J::obj().set("sweep", *v).set("len", *len),
            Img::Const { b, len } => J::obj().set("const", *b).set("len", *len),
            Img::Bytes(b) => J::obj().set("bytes_len", b.len()).set("hash", format!("{:016x}", crate::prng::hash_bytes(b))),
        }
    }
}

#[derive(Clone, Copy, Debug, PartialEq, Eq, Hash, Default)]
pub struct Win {
    pub x: u32,
    pub y: u32,
    pub w: u32,
    pub h: u32,
}
impl Win {
    pub fn new(x: u32, y: u32, w: u32, h: u32) -> Win {
        Win { x, y, w, h }
    }
    pub fn bytes(&self) -> usize {
        (self.w as usize / 8) * self.h as usize
    }
    pub fn to_json(&self) -> J {
        J::Arr(vec![self.x.into(), self.y.into(), self.w.into(), self.h.into()])
    }
}

#[derive(Clone, Debug, PartialEq)]
pub struct Op {
    pub k: K,
    pub img: Img,
    pub img2: Img,
    pub win: Win,
    pub arg: u32,
}

impl Op {
    pub fn new(k: K) -> Op {
        Op { k, img: Img::None, img2: Img::None, win: Win::default(), arg: 0 }
    }
    pub fn img(k: K, img: Img) -> Op {
        Op { k, img, img2: Img::None, win: Win::default(), arg: 0 }
    }
    pub fn img2(k: K, img: Img, img2: Img) -> Op {
        Op { k, img, img2, win: Win::default(), arg: 0 }
    }
    pub fn win(k: K, win: Win, img: Img) -> Op {
        Op { k, img, img2: Img::None, win, arg: 0 }
    }
    pub fn arg(k: K, arg: u32) -> Op {
        Op { k, img: Img::None, img2: Img::None, win: Win::default(), arg }
    }
    pub fn to_json(&self) -> J {
        let mut j = J::obj().set("op", self.k.name());
        if self.img != Img::None {
            j.put("img", self.img.to_json());
        }
        if self.img2 != Img::None {
            j.put("img2", self.img2.to_json());
        }
        if self.win != Win::default() {
            j.put("win", self.win.to_json());
        }
        if self.arg != 0 || matches!(self.k, K::SetBg | K::SetLut | K::SetRefresh | K::SetBorder | K::SetDeepSleepMode) {
            j.put("arg", self.arg);
        }
        j
    }
    pub fn short(&self) -> String {
        let mut s = self.k.name().to_string();
        if self.win != Win::default() {
            s.push_str(&format!("({},{},{},{})", self.win.x, self.win.y, self.win.w, self.win.h));
        }
        if matches!(self.k, K::SetBg | K::SetLut | K::SetRefresh | K::SetBorder | K::SetDeepSleepMode) {
            s.push_str(&format!("[{}]", self.arg));
        }
        s
    }
}

pub fn ops_json(ops: &[Op]) -> J {
    J::Arr(ops.iter().map(|o| o.to_json()).collect())
}
pub fn ops_short(ops: &[Op]) -> String {
    ops.iter().map(|o| o.short()).collect::<Vec<_>>().join("; ")
}

/// Buffer life-time policy (C12): in `scribble` mode a buffer is overwritten with its complement,
/// freed, and a junk buffer of the same size is allocated as soon as the borrowing call returns.
/// A private region caller buffers are carved from during the retention scan (C12): buffer addresses are
/// then distinctive (nothing else lives there), never stored in the harness' own heap objects (only offsets
/// are), and can be shifted between two runs of the same history.
pub struct Arena {
    base: *mut u8,
    cap: usize,
    pub next: usize,
    /// (offset, len) of every buffer lent so far
    pub lent: Vec<(usize, usize)>,
}
impl Arena {
    pub const GUARD: usize = 4096;
    pub fn new(cap: usize, shift: usize) -> Arena {
        let v: Vec<u8> = vec![0u8; cap];
        let base = Box::leak(v.into_boxed_slice()).as_mut_ptr();
        Arena { base, cap, next: Arena::GUARD + shift, lent: Vec::new() }
    }
    /// address range of lent buffer `i`
    pub fn range(&self, i: usize) -> (usize, usize) {
        let (o, l) = self.lent[i];
        (self.base as usize + o, self.base as usize + o + l)
    }
    fn lend(&mut self, bytes: &[u8]) -> Option<&'static [u8]> {
        let off = (self.next + 63) & !63;
        if off + bytes.len() + 64 > self.cap {
            return None;
        }
        self.next = off + bytes.len() + 64;
        self.lent.push((off, bytes.len()));
        // SAFETY: inside the leaked allocation; the region is never handed out twice
        unsafe {
            core::ptr::copy_nonoverlapping(bytes.as_ptr(), self.base.add(off), bytes.len());
            Some(core::slice::from_raw_parts(self.base.add(off), bytes.len()))
        }
    }
}
impl Drop for Arena {
    fn drop(&mut self) {
        // SAFETY: allocated in `new` as a boxed slice of `cap` bytes and leaked
        unsafe { drop(Box::from_raw(core::slice::from_raw_parts_mut(self.base, self.cap))) }
    }
}

pub struct Bufs {
    /// Some = retention-scan run: buffers come from the arena and stay intact
    pub arena: Option<Arena>,
    pub scribble: bool,
    /// scribble but keep the allocation alive (deterministic native detection of re-reads)
    pub keep_alive: bool,
    pub kept: Vec<Vec<u8>>,
    pub junk: Vec<Vec<u8>>,
    pub bytes_lent: u64,
}
impl Bufs {
    pub fn new(scribble: bool) -> Bufs {
        Bufs { arena: None, scribble, keep_alive: false, kept: Vec::new(), junk: Vec::new(), bytes_lent: 0 }
    }
    pub fn with<R>(&mut self, img: &Img, f: impl FnOnce(&mut Bufs, &[u8]) -> R) -> R {
        if self.arena.is_some() {
            let bytes = img.make();
            self.bytes_lent += bytes.len() as u64;
            let lent = self.arena.as_mut().and_then(|a| a.lend(&bytes));
            drop(bytes);
            if let Some(slice) = lent {
                return f(self, slice);
            }
            // arena exhausted: fall through to an ordinary buffer (the scan ignores it)
        }
        let mut v = img.make();
        self.bytes_lent += v.len() as u64;
        let r = f(self, &v);
        if self.scribble && self.keep_alive {
            for b in v.iter_mut() {
                *b = !*b;
            }
            std::hint::black_box(&v);
            self.junk.push(Vec::new());
            self.kept.push(v);
        } else if self.scribble {
            for b in v.iter_mut() {
                *b = !*b;
            }
            let n = v.len();
            // make the write observable to the optimiser
            std::hint::black_box(&v);
            drop(v);
            let mut j = vec![0u8; n];
            for (i, b) in j.iter_mut().enumerate() {
                *b = 0x5A ^ (i as u8).wrapping_mul(13);
            }
            std::hint::black_box(&j);
            if self.junk.len() >= 6 {
                self.junk.remove(0);
            }
            self.junk.push(j);
        } else {
            self.kept.push(v);
        }
        r
    }
}
