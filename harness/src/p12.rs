//! Adapter for the four-controller 12.48in driver (own API over SpiBus + 4 CS + 2 DC + 2 RST + 4 BUSY).
use crate::hal::*;
use crate::json::J;
use crate::model::{Ctrl, CtrlCfg, Family, WinFmt};
use crate::panels::{payload_outcome_pub, Outcome};
use epd_waveshare::epd12in48b_v2::{BorderLUT, Config, EpdDriver, Peripherals, Rect};
use std::panic::{catch_unwind, AssertUnwindSafe};

pub const W: u32 = 1304;
pub const H: u32 = 984;
pub const SPLIT_X: u32 = 648;
pub const SPLIT_Y: u32 = 492;

/// chips in board order: M1, S1, M2, S2
pub const CHIP_NAMES: [&str; 4] = ["M1", "S1", "M2", "S2"];
/// rectangle of each chip in panel coordinates (x, y, w, h), from the documented layout
pub const CHIP_RECTS: [(u32, u32, u32, u32); 4] = [
    (0, SPLIT_Y, SPLIT_X, H - SPLIT_Y),          // M1 bottom-left
    (SPLIT_X, SPLIT_Y, W - SPLIT_X, H - SPLIT_Y), // S1 bottom-right
    (SPLIT_X, 0, W - SPLIT_X, SPLIT_Y),           // M2 top-right
    (0, 0, SPLIT_X, SPLIT_Y),                     // S2 top-left
];
/// the two upper chips are scanned mirrored in X
pub const CHIP_MIRRORED: [bool; 4] = [false, false, true, true];

fn chip_cfg(w: u32, h: u32) -> CtrlCfg {
    CtrlCfg {
        family: Family::Uc,
        width: w,
        height: h,
        ram_w_bytes: 0,
        ram_rows: 0,
        x_pixel_units: false,
        bpp1: 1,
        bpp2: 1,
        win_fmt: WinFmt::W9,
        has_xywl_partial: false,
        busy_low: true,
        busy_held_after_pof: false,
        pof_pulse_floor: 0,
        vendor_uc_sleep: false,
    }
}

#[derive(Clone, Debug, PartialEq)]
pub enum Op12 {
    Reset,
    Init(u32),
    SetMode(u32),
    Write1(Vec<u8>),
    Write2(Vec<u8>),
    Write1Partial((u32, u32, u32, u32), Vec<u8>),
    Write2Partial((u32, u32, u32, u32), Vec<u8>),
    SetLut(u8, Vec<u8>),
    Refresh,
    BeginRefresh,
    RefreshPartial((u32, u32, u32, u32)),
    BeginRefreshPartial((u32, u32, u32, u32)),
    PollUntilIdle,
    PowerOff,
    Hibernate,
    GetStatus,
}

impl Op12 {
    pub fn name(&self) -> &'static str {
        match self {
            Op12::Reset => "reset",
            Op12::Init(_) => "init",
            Op12::SetMode(_) => "set_mode",
            Op12::Write1(_) => "write_data1",
            Op12::Write2(_) => "write_data2",
            Op12::Write1Partial(..) => "write_data1_partial",
            Op12::Write2Partial(..) => "write_data2_partial",
            Op12::SetLut(..) => "set_lut",
            Op12::Refresh => "refresh_display",
            Op12::BeginRefresh => "begin_refresh_display",
            Op12::RefreshPartial(_) => "refresh_display_partial",
            Op12::BeginRefreshPartial(_) => "begin_refresh_display_partial",
            Op12::PollUntilIdle => "is_busy-poll",
            Op12::PowerOff => "power_off",
            Op12::Hibernate => "hibernate",
            Op12::GetStatus => "get_status",
        }
    }
    pub fn to_json(&self) -> J {
        let j = J::obj().set("op", self.name());
        match self {
            Op12::Init(c) | Op12::SetMode(c) => j.set("config", *c),
            Op12::Write1(p) | Op12::Write2(p) => j.set("pixels_len", p.len()),
            Op12::Write1Partial(w, p) | Op12::Write2Partial(w, p) => j.set("win", vec![w.0, w.1, w.2, w.3]).set("pixels_len", p.len()),
            Op12::RefreshPartial(w) | Op12::BeginRefreshPartial(w) => j.set("win", vec![w.0, w.1, w.2, w.3]),
            Op12::SetLut(r, d) => j.set("reg", *r).set("len", d.len()),
            _ => j,
        }
    }
}

/// configuration index 0..32: bit0 inverted_kw, bit1 inverted_r, bits 2-3 border, bit4 external_lut
pub fn config(i: u32) -> Config {
    Config {
        inverted_kw: i & 1 != 0,
        inverted_r: i & 2 != 0,
        border_lut: match (i >> 2) & 3 {
            0 => BorderLUT::LUTBD,
            1 => BorderLUT::LUTK,
            2 => BorderLUT::LUTW,
            _ => BorderLUT::LUTR,
        },
        external_lut: i & 16 != 0,
    }
}

pub struct Rig12 {
    pub board: BoardRef,
    pub drv: EpdDriver<SimIn, SimOut, SimBus, SimDelay>,
    pub nops: u32,
}

impl Rig12 {
    pub fn new(setup: impl FnOnce(&mut Board)) -> Rig12 {
        let chips = vec![
            Ctrl::new(chip_cfg(CHIP_RECTS[0].2, CHIP_RECTS[0].3)),
            Ctrl::new(chip_cfg(CHIP_RECTS[1].2, CHIP_RECTS[1].3)),
            Ctrl::new(chip_cfg(CHIP_RECTS[2].2, CHIP_RECTS[2].3)),
            Ctrl::new(chip_cfg(CHIP_RECTS[3].2, CHIP_RECTS[3].3)),
        ];
        let board = Board::new(chips, true);
        setup(&mut board.borrow_mut());
        let b = &board;
        let peris = Peripherals {
            spi: SimBus(b.clone()),
            m1_cs: SimOut(b.clone(), Pin::CsM1),
            s1_cs: SimOut(b.clone(), Pin::CsS1),
            m2_cs: SimOut(b.clone(), Pin::CsM2),
            s2_cs: SimOut(b.clone(), Pin::CsS2),
            m1s1_dc: SimOut(b.clone(), Pin::DcM1S1),
            m2s2_dc: SimOut(b.clone(), Pin::DcM2S2),
            m1s1_rst: SimOut(b.clone(), Pin::RstM1S1),
            m2s2_rst: SimOut(b.clone(), Pin::RstM2S2),
            m1_busy: SimIn(b.clone(), Pin::BusyM1),
            s1_busy: SimIn(b.clone(), Pin::BusyS1),
            m2_busy: SimIn(b.clone(), Pin::BusyM2),
            s2_busy: SimIn(b.clone(), Pin::BusyS2),
        };
        let drv = EpdDriver::new(peris, SimDelay(board.clone()));
        Rig12 { board, drv, nops: 0 }
    }

    /// fresh driver after the documented bring-up: reset(); init(default config)
    pub fn ready() -> Rig12 {
        let mut r = Rig12::new(|_| {});
        assert!(r.apply(&Op12::Reset).is_ok());
        assert!(r.apply(&Op12::Init(0)).is_ok());
        r
    }

    pub fn apply(&mut self, op: &Op12) -> Outcome {
        self.nops += 1;
        let idx = self.nops;
        self.board.borrow_mut().op_begin(idx);
        let d = &mut self.drv;
        let rect = |w: &(u32, u32, u32, u32)| Rect::new(w.0, w.1, w.2, w.3);
        let r = catch_unwind(AssertUnwindSafe(|| -> Result<(), SimSpiError> {
            match op {
                Op12::Reset => {
                    let _ = d.reset();
                    Ok(())
                }
                Op12::Init(c) => d.init(&config(*c)),
                Op12::SetMode(c) => d.set_mode(&config(*c)),
                Op12::Write1(p) => d.write_data1(p),
                Op12::Write2(p) => d.write_data2(p),
                Op12::Write1Partial(w, p) => d.write_data1_partial(rect(w), p),
                Op12::Write2Partial(w, p) => d.write_data2_partial(rect(w), p),
                Op12::SetLut(r, data) => match r {
                    0x20 => d.set_lutc(data),
                    0x21 => d.set_lutww(data),
                    0x22 => d.set_lutkw_lutr(data),
                    0x23 => d.set_lutwk_lutw(data),
                    0x24 => d.set_lutkk_lutk(data),
                    _ => d.set_lutbd(data),
                },
                Op12::Refresh => d.refresh_display(),
                Op12::BeginRefresh => d.begin_refresh_display(),
                Op12::RefreshPartial(w) => d.refresh_display_partial(rect(w)),
                Op12::BeginRefreshPartial(w) => d.begin_refresh_display_partial(rect(w)),
                Op12::PollUntilIdle => {
                    let mut n = 0;
                    while d.is_busy() {
                        n += 1;
                        if n > 100_000 {
                            break;
                        }
                    }
                    Ok(())
                }
                Op12::PowerOff => d.power_off(),
                Op12::Hibernate => d.hibernate(),
                Op12::GetStatus => d.get_status().map(|_| ()),
            }
        }));
        self.board.borrow_mut().op_end(idx);
        match r {
            Ok(Ok(())) => Outcome::Ok,
            Ok(Err(e)) => Outcome::Err(e.id),
            Err(p) => payload_outcome_pub(p),
        }
    }
}
