//! Panel matrix + adapters: one `DynPanel` implementation per driver, all driven through the same
//! operation alphabet.
use crate::hal::*;
use crate::model::{Ctrl, CtrlCfg, Family, WinFmt};
use crate::ops::*;
use epd_waveshare::color::{Color, OctColor, TriColor};
use epd_waveshare::prelude::{QuickRefresh, RefreshLut, WaveshareDisplay, WaveshareThreeColorDisplay};
use std::any::Any;
use std::panic::{catch_unwind, AssertUnwindSafe};

pub type R = Result<(), SimSpiError>;

#[derive(Clone, Debug, PartialEq)]
pub enum Outcome {
    Ok,
    Err(u32),
    Panic(String),
    /// aborted by the simulated board: driver kept polling an idle panel
    Spin(u32),
    /// aborted by the simulated board: transfer cap exceeded
    Cap,
    Unsupported,
}
impl Outcome {
    pub fn is_ok(&self) -> bool {
        *self == Outcome::Ok
    }
    pub fn short(&self) -> String {
        match self {
            Outcome::Ok => "ok".into(),
            Outcome::Err(i) => format!("err({})", i),
            Outcome::Panic(s) => format!("panic({})", s),
            Outcome::Spin(n) => format!("spin({})", n),
            Outcome::Cap => "cap".into(),
            Outcome::Unsupported => "unsupported".into(),
        }
    }
}

#[derive(Clone, Copy, Debug, PartialEq, Eq)]
pub enum ColorKind {
    Bw,
    Tri,
    Oct,
}
impl ColorKind {
    pub fn count(self) -> u32 {
        match self {
            ColorKind::Bw => 2,
            ColorKind::Tri => 3,
            ColorKind::Oct => 8,
        }
    }
}

pub trait DynPanel {
    /// run one operation against the real driver (no unwinding protection here)
    fn apply_raw(&mut self, op: &Op, bufs: &mut Bufs) -> Option<R>;
    fn bg_index(&self) -> u32;
    fn width(&self) -> u32;
    fn height(&self) -> u32;
    /// guarded hook (feature `verif`): the driver's own belief about the booster state
    fn power_flag(&self) -> Option<bool> {
        None
    }
    /// the driver object's own memory as machine words (native runs only): lets a monitor look for
    /// addresses of caller buffers that the driver kept after the lending call returned
    fn raw_words(&self) -> Vec<usize> {
        Vec::new()
    }
}

/// every aligned machine word of `v`'s in-place representation (padding included, read volatile)
pub fn words_of<T>(v: &T) -> Vec<usize> {
    let n = core::mem::size_of_val(v);
    let w = core::mem::size_of::<usize>();
    if core::mem::align_of_val(v) < w {
        return Vec::new();
    }
    let p = v as *const T as *const u8;
    let mut out = Vec::with_capacity(n / w);
    for i in 0..n / w {
        let mut x = 0usize;
        for k in 0..w {
            // SAFETY: inside the object; volatile byte reads so that padding is read as it lies in memory
            let b = unsafe { core::ptr::read_volatile(p.add(i * w + k)) };
            x |= (b as usize) << (8 * k);
        }
        out.push(x);
    }
    out
}

thread_local! {
    pub static LAST_PANIC: std::cell::RefCell<String> = std::cell::RefCell::new(String::new());
}

pub fn install_panic_hook() {
    std::panic::set_hook(Box::new(|info| {
        let loc = info.location().map(|l| format!("{}:{}", l.file(), l.line())).unwrap_or_default();
        let msg = if let Some(s) = info.payload().downcast_ref::<&str>() {
            s.to_string()
        } else if let Some(s) = info.payload().downcast_ref::<String>() {
            s.clone()
        } else {
            String::new()
        };
        LAST_PANIC.with(|p| *p.borrow_mut() = format!("{} @ {}", msg, loc));
    }));
}

fn payload_outcome(p: Box<dyn Any + Send>) -> Outcome {
    if let Some(s) = p.downcast_ref::<SpinAbort>() {
        return Outcome::Spin(s.polls);
    }
    if p.downcast_ref::<CapAbort>().is_some() {
        return Outcome::Cap;
    }
    let m = LAST_PANIC.with(|p| p.borrow().clone());
    // strip absolute path prefix for stable signatures
    Outcome::Panic(m.replace("/repo/", ""))
}

pub fn payload_outcome_pub(p: Box<dyn Any + Send>) -> Outcome {
    payload_outcome(p)
}

/// A live driver + its board.
pub struct Rig {
    pub spec: &'static Spec,
    pub board: BoardRef,
    pub panel: Box<dyn DynPanel>,
    pub bufs: Bufs,
    pub nops: u32,
    /// a panic unwound through the driver: its state is unspecified from here on
    pub poisoned: bool,
}

impl Rig {
    /// construct the driver through its real `new`. Returns Err(outcome) if construction failed.
    pub fn new(spec: &'static Spec, setup: impl FnOnce(&mut Board), delay_us: Option<u32>, scribble: bool) -> Result<Rig, (Outcome, BoardRef)> {
        let board = Board::new(vec![Ctrl::new(spec.cfg())], false);
        setup(&mut board.borrow_mut());
        board.borrow_mut().op_begin(0);
        let b2 = board.clone();
        let r = catch_unwind(AssertUnwindSafe(|| (spec.make)(b2, delay_us)));
        board.borrow_mut().op_end(0);
        match r {
            Ok(Ok(panel)) => Ok(Rig { spec, board, panel, bufs: Bufs::new(scribble), nops: 0, poisoned: false }),
            Ok(Err(e)) => Err((Outcome::Err(e.id), board)),
            Err(p) => Err((payload_outcome(p), board)),
        }
    }
    pub fn simple(spec: &'static Spec) -> Rig {
        match Rig::new(spec, |_| {}, None, false) {
            Ok(r) => r,
            Err((o, _)) => panic!("constructor of {} failed on a fault-free board: {:?}", spec.name, o),
        }
    }
    pub fn apply(&mut self, op: &Op) -> Outcome {
        self.nops += 1;
        let idx = self.nops;
        self.board.borrow_mut().op_begin(idx);
        let panel = &mut self.panel;
        let bufs = &mut self.bufs;
        let r = catch_unwind(AssertUnwindSafe(|| panel.apply_raw(op, bufs)));
        self.board.borrow_mut().op_end(idx);
        match r {
            Ok(Some(Ok(()))) => Outcome::Ok,
            Ok(Some(Err(e))) => Outcome::Err(e.id),
            Ok(None) => Outcome::Unsupported,
            Err(p) => {
                self.poisoned = true;
                payload_outcome(p)
            }
        }
    }
    pub fn apply_all(&mut self, ops: &[Op]) -> Vec<Outcome> {
        ops.iter().map(|o| self.apply(o)).collect()
    }
}

fn lut_arg(a: u32) -> Option<RefreshLut> {
    match a {
        1 => Some(RefreshLut::Full),
        2 => Some(RefreshLut::Quick),
        _ => None,
    }
}

pub fn bw(i: u32) -> Color {
    if i == 0 {
        Color::Black
    } else {
        Color::White
    }
}
pub fn bw_idx(c: &Color) -> u32 {
    match c {
        Color::Black => 0,
        Color::White => 1,
    }
}
pub fn tri(i: u32) -> TriColor {
    match i {
        0 => TriColor::Black,
        1 => TriColor::White,
        _ => TriColor::Chromatic,
    }
}
pub fn tri_idx(c: &TriColor) -> u32 {
    match c {
        TriColor::Black => 0,
        TriColor::White => 1,
        TriColor::Chromatic => 2,
    }
}
pub fn oct(i: u32) -> OctColor {
    OctColor::from_nibble((i & 7) as u8).unwrap()
}
pub fn oct_idx(c: &OctColor) -> u32 {
    c.get_nibble() as u32
}

type Spi = SimSpi;
type Dl = SimDelay;

fn base_ops<E, C>(e: &mut E, spi: &mut Spi, d: &mut Dl, op: &Op, bufs: &mut Bufs, col: fn(u32) -> C) -> Option<R>
where
    E: WaveshareDisplay<Spi, SimIn, SimOut, SimOut, Dl, DisplayColor = C>,
{
    Some(match op.k {
        K::WakeUp => e.wake_up(spi, d),
        K::Sleep => e.sleep(spi, d),
        K::UpdateFrame => bufs.with(&op.img, |_, b| e.update_frame(spi, b, d)),
        K::UpdateAndDisplay => bufs.with(&op.img, |_, b| e.update_and_display_frame(spi, b, d)),
        K::Display => e.display_frame(spi, d),
        K::Clear => e.clear_frame(spi, d),
        K::SetBg => {
            e.set_background_color(col(op.arg));
            Ok(())
        }
        K::SetLut => e.set_lut(spi, d, lut_arg(op.arg)),
        K::WaitIdle => e.wait_until_idle(spi, d),
        K::UpdatePartial => bufs.with(&op.img, |_, b| e.update_partial_frame(spi, d, b, op.win.x, op.win.y, op.win.w, op.win.h)),
        _ => return None,
    })
}

fn quick_ops<E>(e: &mut E, spi: &mut Spi, d: &mut Dl, op: &Op, bufs: &mut Bufs) -> Option<R>
where
    E: QuickRefresh<Spi, SimIn, SimOut, SimOut, Dl>,
{
    let w = op.win;
    Some(match op.k {
        K::UpdateOld => bufs.with(&op.img, |_, b| e.update_old_frame(spi, b, d)),
        K::UpdateNew => bufs.with(&op.img, |_, b| e.update_new_frame(spi, b, d)),
        K::DisplayNew => e.display_new_frame(spi, d),
        K::UpdateAndDisplayNew => bufs.with(&op.img, |_, b| e.update_and_display_new_frame(spi, b, d)),
        K::PartialOld => bufs.with(&op.img, |_, b| e.update_partial_old_frame(spi, d, b, w.x, w.y, w.w, w.h)),
        K::PartialNew => bufs.with(&op.img, |_, b| e.update_partial_new_frame(spi, d, b, w.x, w.y, w.w, w.h)),
        K::ClearPartial => e.clear_partial_frame(spi, d, w.x, w.y, w.w, w.h),
        _ => return None,
    })
}

fn tri_ops<E>(e: &mut E, spi: &mut Spi, d: &mut Dl, op: &Op, bufs: &mut Bufs) -> Option<R>
where
    E: WaveshareThreeColorDisplay<Spi, SimIn, SimOut, SimOut, Dl>,
{
    Some(match op.k {
        K::UpdateColor => bufs.with(&op.img, |bufs, b| bufs.with(&op.img2, |_, c| e.update_color_frame(spi, d, b, c))),
        K::Achromatic => bufs.with(&op.img, |_, b| e.update_achromatic_frame(spi, d, b)),
        K::Chromatic => bufs.with(&op.img, |_, b| e.update_chromatic_frame(spi, d, b)),
        _ => return None,
    })
}

macro_rules! adapter {
    ($name:ident, $ty:ty, $col:path, $colidx:path, |$e:ident, $spi:ident, $d:ident, $op:ident, $bufs:ident| $ext:expr) => {
        adapter!($name, $ty, $col, $colidx, |$e, $spi, $d, $op, $bufs| $ext, |_p| None);
    };
    ($name:ident, $ty:ty, $col:path, $colidx:path, |$e:ident, $spi:ident, $d:ident, $op:ident, $bufs:ident| $ext:expr, |$p:ident| $flag:expr) => {
        pub struct $name {
            e: $ty,
            spi: Spi,
            delay: Dl,
        }
        impl $name {
            pub fn make(board: BoardRef, delay_us: Option<u32>) -> Result<Box<dyn DynPanel>, SimSpiError> {
                let mut spi = SimSpi(board.clone());
                let mut delay = SimDelay(board.clone());
                let e = <$ty>::new(
                    &mut spi,
                    SimIn(board.clone(), Pin::Busy),
                    SimOut(board.clone(), Pin::Dc),
                    SimOut(board.clone(), Pin::Rst),
                    &mut delay,
                    delay_us,
                )?;
                Ok(Box::new($name { e, spi, delay }))
            }
        }
        impl DynPanel for $name {
            fn apply_raw(&mut self, op: &Op, bufs: &mut Bufs) -> Option<R> {
                if let Some(r) = base_ops(&mut self.e, &mut self.spi, &mut self.delay, op, bufs, $col) {
                    return Some(r);
                }
                let $e = &mut self.e;
                let $spi = &mut self.spi;
                let $d = &mut self.delay;
                let $op = op;
                let $bufs = bufs;
                $ext
            }
            fn bg_index(&self) -> u32 {
                $colidx(self.e.background_color())
            }
            fn raw_words(&self) -> Vec<usize> {
                words_of(&self.e)
            }
            fn width(&self) -> u32 {
                self.e.width()
            }
            fn height(&self) -> u32 {
                self.e.height()
            }
            fn power_flag(&self) -> Option<bool> {
                let $p = &self.e;
                $flag
            }
        }
    };
}

type P<E> = E;
use epd_waveshare as ew;

#[cfg(feature = "verif")]
adapter!(A1in02, ew::epd1in02::Epd1in02<Spi, SimIn, SimOut, SimOut, Dl>, bw, bw_idx, |e, spi, d, op, bufs| quick_ops(e, spi, d, op, bufs), |p| Some(p.verif_power_flag()));
#[cfg(not(feature = "verif"))]
adapter!(A1in02, ew::epd1in02::Epd1in02<Spi, SimIn, SimOut, SimOut, Dl>, bw, bw_idx, |e, spi, d, op, bufs| quick_ops(e, spi, d, op, bufs));
adapter!(A1in54, ew::epd1in54::Epd1in54<Spi, SimIn, SimOut, SimOut, Dl>, bw, bw_idx, |_e, _spi, _d, _op, _bufs| None);
adapter!(A1in54v2, ew::epd1in54_v2::Epd1in54<Spi, SimIn, SimOut, SimOut, Dl>, bw, bw_idx, |_e, _spi, _d, _op, _bufs| None);
adapter!(A1in54b, ew::epd1in54b::Epd1in54b<Spi, SimIn, SimOut, SimOut, Dl>, bw, bw_idx, |e, spi, d, op, bufs| tri_ops(e, spi, d, op, bufs));
adapter!(A1in54c, ew::epd1in54c::Epd1in54c<Spi, SimIn, SimOut, SimOut, Dl>, bw, bw_idx, |e, spi, d, op, bufs| tri_ops(e, spi, d, op, bufs));
adapter!(A2in13v2, ew::epd2in13_v2::Epd2in13<Spi, SimIn, SimOut, SimOut, Dl>, bw, bw_idx, |e, spi, d, op, bufs| match op.k {
    K::SetRefresh => Some(e.set_refresh(spi, d, lut_arg(op.arg).unwrap_or(RefreshLut::Full))),
    K::SetPartialBase => Some(bufs.with(&op.img, |_, b| e.set_partial_base_buffer(spi, d, b))),
    _ => None,
});
adapter!(A2in13bv4, ew::epd2in13b_v4::Epd2in13b<Spi, SimIn, SimOut, SimOut, Dl>, tri, tri_idx, |e, spi, d, op, bufs| tri_ops(e, spi, d, op, bufs));
adapter!(A2in13bc, ew::epd2in13bc::Epd2in13bc<Spi, SimIn, SimOut, SimOut, Dl>, tri, tri_idx, |e, spi, d, op, bufs| match op.k {
    K::SetBorder => Some(e.set_border_color(spi, tri(op.arg))),
    _ => tri_ops(e, spi, d, op, bufs),
});
adapter!(A2in9bc, ew::epd2in9bc::Epd2in9bc<Spi, SimIn, SimOut, SimOut, Dl>, bw, bw_idx, |e, spi, d, op, bufs| match op.k {
    K::SetBorder => Some(e.set_border_color(spi, tri(op.arg))),
    _ => tri_ops(e, spi, d, op, bufs),
});
adapter!(A2in66b, ew::epd2in66b::Epd2in66b<Spi, SimIn, SimOut, SimOut, Dl>, tri, tri_idx, |e, spi, d, op, bufs| tri_ops(e, spi, d, op, bufs));
adapter!(A2in7, ew::epd2in7::Epd2in7<Spi, SimIn, SimOut, SimOut, Dl>, bw, bw_idx, |_e, _spi, _d, _op, _bufs| None);
adapter!(A2in7v2, ew::epd2in7_v2::Epd2in7<Spi, SimIn, SimOut, SimOut, Dl>, bw, bw_idx, |_e, _spi, _d, _op, _bufs| None);
adapter!(A2in7b, ew::epd2in7b::Epd2in7b<Spi, SimIn, SimOut, SimOut, Dl>, bw, bw_idx, |e, spi, d, op, bufs| {
    let w = op.win;
    match op.k {
        K::DisplayPartial => Some(e.display_partial_frame(spi, d, w.x, w.y, w.w, w.h)),
        K::PartialAchromatic => Some(bufs.with(&op.img, |_, b| e.update_partial_achromatic_frame(spi, d, b, w.x, w.y, w.w, w.h))),
        K::PartialChromatic => Some(bufs.with(&op.img, |_, b| e.update_partial_chromatic_frame(spi, d, b, w.x, w.y, w.w, w.h))),
        _ => tri_ops(e, spi, d, op, bufs),
    }
});
adapter!(A2in9, ew::epd2in9::Epd2in9<Spi, SimIn, SimOut, SimOut, Dl>, bw, bw_idx, |_e, _spi, _d, _op, _bufs| None);
adapter!(A2in9v2, ew::epd2in9_v2::Epd2in9<Spi, SimIn, SimOut, SimOut, Dl>, bw, bw_idx, |e, spi, d, op, bufs| quick_ops(e, spi, d, op, bufs));
adapter!(A2in9bv4, ew::epd2in9b_v4::Epd2in9b<Spi, SimIn, SimOut, SimOut, Dl>, tri, tri_idx, |e, spi, d, op, bufs| match op.k {
    K::UpdateAndDisplayBase => Some(bufs.with(&op.img, |bufs, b| {
        if op.img2 == Img::None {
            e.update_and_display_frame_base(spi, b, None, d)
        } else {
            bufs.with(&op.img2, |_, c| e.update_and_display_frame_base(spi, b, Some(c), d))
        }
    })),
    K::DisplayPartial => Some(e.display_frame_partial(spi, d)),
    _ => tri_ops(e, spi, d, op, bufs),
});
adapter!(A2in9d, ew::epd2in9d::Epd2in9d<'static, Spi, SimIn, SimOut, SimOut, Dl>, bw, bw_idx, |_e, _spi, _d, _op, _bufs| None);
adapter!(A3in7, ew::epd3in7::EPD3in7<Spi, SimIn, SimOut, SimOut, Dl>, bw, bw_idx, |_e, _spi, _d, _op, _bufs| None);
adapter!(A4in2, ew::epd4in2::Epd4in2<Spi, SimIn, SimOut, SimOut, Dl>, bw, bw_idx, |e, spi, d, op, bufs| quick_ops(e, spi, d, op, bufs));
adapter!(A5in65f, ew::epd5in65f::Epd5in65f<Spi, SimIn, SimOut, SimOut, Dl>, oct, oct_idx, |_e, _spi, _d, _op, _bufs| None);
adapter!(A5in83v2, ew::epd5in83_v2::Epd5in83<Spi, SimIn, SimOut, SimOut, Dl>, bw, bw_idx, |_e, _spi, _d, _op, _bufs| None);
adapter!(A5in83bv2, ew::epd5in83b_v2::Epd5in83<Spi, SimIn, SimOut, SimOut, Dl>, bw, bw_idx, |e, spi, d, op, bufs| tri_ops(e, spi, d, op, bufs));
adapter!(A7in3f, ew::epd7in3f::Epd7in3f<Spi, SimIn, SimOut, SimOut, Dl>, oct, oct_idx, |e, spi, d, op, _bufs| match op.k {
    K::Show7Block => Some(e.show_7block(spi, d)),
    _ => None,
});
adapter!(A7in5, ew::epd7in5::Epd7in5<Spi, SimIn, SimOut, SimOut, Dl>, bw, bw_idx, |_e, _spi, _d, _op, _bufs| None);
adapter!(A7in5hd, ew::epd7in5_hd::Epd7in5<Spi, SimIn, SimOut, SimOut, Dl>, bw, bw_idx, |_e, _spi, _d, _op, _bufs| None);
adapter!(A7in5v2, ew::epd7in5_v2::Epd7in5<Spi, SimIn, SimOut, SimOut, Dl>, bw, bw_idx, |_e, _spi, _d, _op, _bufs| None);
adapter!(A7in5bv2, ew::epd7in5b_v2::Epd7in5<Spi, SimIn, SimOut, SimOut, Dl>, tri, tri_idx, |e, spi, d, op, bufs| {
    let w = op.win;
    match op.k {
        K::UpdatePartial2 => Some(bufs.with(&op.img, |_, b| e.update_partial_frame2(spi, b, w.x, w.y, w.w, w.h, d))),
        _ => tri_ops(e, spi, d, op, bufs),
    }
});

#[allow(dead_code)]
fn _unused(_: P<u8>) {}

// =====================================================================================
// Panel matrix
// =====================================================================================

#[derive(Clone, Copy, Debug, PartialEq, Eq)]
pub enum Enc {
    /// wire bytes == buffer bytes
    Id,
    /// bitwise inverted (2in7b)
    Inv,
    /// 1 bpp -> 2 bpp expansion (1in54b)
    X2,
    /// 1 bpp -> 4 bpp expansion (7in5)
    X4,
}

pub fn encode(enc: Enc, buf: &[u8]) -> Vec<u8> {
    match enc {
        Enc::Id => buf.to_vec(),
        Enc::Inv => buf.iter().map(|b| !b).collect(),
        Enc::X2 => {
            // every input bit b becomes the bit pair bb (datasheet: 2 bits per pixel, 00 black, 11 white)
            let mut out = Vec::with_capacity(buf.len() * 2);
            for &b in buf {
                let mut w: u16 = 0;
                for i in 0..8 {
                    if b & (0x80 >> i) != 0 {
                        w |= 0b11 << (14 - 2 * i);
                    }
                }
                out.push((w >> 8) as u8);
                out.push(w as u8);
            }
            out
        }
        Enc::X4 => {
            // UC8159 4 bpp: 0000 black, 0011 white; two pixels per byte, first pixel in the high nibble
            let mut out = Vec::with_capacity(buf.len() * 4);
            for &b in buf {
                for pair in 0..4 {
                    let hi = if b & (0x80 >> (2 * pair)) != 0 { 0x3 } else { 0x0 };
                    let lo = if b & (0x80 >> (2 * pair + 1)) != 0 { 0x3 } else { 0x0 };
                    out.push((hi << 4) | lo);
                }
            }
            out
        }
    }
}

/// which buffer of the panel's Display alias an entry point takes
#[derive(Clone, Copy, Debug, PartialEq, Eq)]
pub enum BufSel {
    /// whole `buffer()`
    Whole,
    /// `bw_buffer()` (for single-plane aliases: the whole buffer)
    Bw,
    /// `chromatic_buffer()`
    Chr,
}

/// a full-frame entry point: which op, which plane it is documented to fill, under which encoding
#[derive(Clone, Copy, Debug)]
pub struct FullEntry {
    pub k: K,
    /// primary plane index in the model (0 = 0x24/DTM1, 1 = 0x26/DTM2)
    pub plane: usize,
    pub enc: Enc,
    pub buf: BufSel,
    /// for two-plane calls (update_color_frame, 7in5b_v2 update_frame): second plane filled with img2 / second half
    pub plane2: Option<(usize, Enc)>,
    /// op must be preceded by this op (protocol): e.g. Chromatic after Achromatic, UpdateNew after UpdateOld
    pub after: Option<K>,
}

#[derive(Clone, Copy, Debug)]
pub struct PartialEntry {
    pub k: K,
    pub plane: usize,
    pub enc: Enc,
    /// preceded by this op with the same window
    pub after: Option<K>,
    /// call also fills a second plane with the second half of the buffer (7in5b_v2)
    pub two_planes: bool,
    /// fill op without buffer (clear_partial_frame)
    pub is_fill: bool,
}

#[derive(Clone, Copy, Debug, PartialEq, Eq)]
pub enum LutKind {
    /// no host-loaded tables
    None,
    /// one fixed table set
    Fixed,
    /// full + quick sets
    FullQuick,
}

pub struct Spec {
    pub name: &'static str,
    pub w: u32,
    pub h: u32,
    pub family: Family,
    /// SSD: physical RAM geometry (bytes per row, rows)
    pub ram: (u32, u32),
    pub x_pixel_units: bool,
    pub bpp1: u32,
    pub bpp2: u32,
    pub win_fmt: WinFmt,
    pub xywl: bool,
    pub busy_low: bool,
    pub busy_held_after_pof: bool,
    pub color: ColorKind,
    /// colour type of the shipped Display alias (differs from the driver colour on 5in83b_v2)
    pub alias_color: ColorKind,
    pub display: fn() -> Box<dyn DynDisplay>,
    pub bwrbit: bool,
    /// planes of the Display alias (1 or 2) and bits per pixel per plane
    pub alias_planes: u32,
    pub alias_bpp: u32,
    pub single_byte: bool,
    pub make: fn(BoardRef, Option<u32>) -> Result<Box<dyn DynPanel>, SimSpiError>,
    pub full: &'static [FullEntry],
    pub partial: &'static [PartialEntry],
    /// ops implemented by the pinned tree (others are unimplemented!()/todo!())
    pub ops: &'static [K],
    pub lut: LutKind,
    /// address map: row y of the drawing -> RAM row (identity except 7in5_hd)
    pub row_map: fn(u32) -> u32,
    /// essential init opcodes: one of these sets must have been written since last reset before a refresh
    pub essential: &'static [&'static [u8]],
    pub needs_pon: bool,
    /// last command + parameters of sleep(): (opcode, required param check)
    pub sleep_sig: SleepSig,
    /// ops that re-initialise internally with a hardware reset
    pub reinit_ops: &'static [K],
}

#[derive(Clone, Copy, Debug, PartialEq, Eq)]
pub enum SleepSig {
    /// UC / ACeP: 0x07 0xA5
    Uc,
    /// SSD: 0x10 with bit0 set
    Ssd,
}

impl Spec {
    pub fn cfg(&self) -> CtrlCfg {
        CtrlCfg {
            family: self.family,
            width: self.w,
            height: self.h,
            ram_w_bytes: self.ram.0,
            ram_rows: self.ram.1,
            x_pixel_units: self.x_pixel_units,
            bpp1: self.bpp1,
            bpp2: self.bpp2,
            win_fmt: self.win_fmt,
            has_xywl_partial: self.xywl,
            busy_low: self.busy_low,
            busy_held_after_pof: self.busy_held_after_pof,
            vendor_uc_sleep: self.name == "epd3in7",
            pof_pulse_floor: if self.name == "epd5in65f" { 1 } else { 0 },
        }
    }
    pub fn row_bytes(&self) -> u32 {
        (self.w + 7) / 8
    }
    /// bytes of one 1-bpp plane of the panel
    pub fn plane_bytes(&self) -> usize {
        (self.row_bytes() * self.h) as usize
    }
    /// length of the buffer a full-frame entry point takes
    pub fn entry_buf_len(&self, e: &FullEntry) -> usize {
        let alias_len = ((self.w * self.alias_bpp + 7) / 8 * self.h * self.alias_planes) as usize;
        match e.buf {
            BufSel::Whole => alias_len,
            BufSel::Bw | BufSel::Chr => alias_len / self.alias_planes as usize,
        }
    }
    pub fn has(&self, k: K) -> bool {
        self.ops.contains(&k)
    }
    pub fn full_entry(&self, k: K) -> Option<&FullEntry> {
        self.full.iter().find(|e| e.k == k)
    }
}

fn ident(y: u32) -> u32 {
    y
}
fn map_7in5hd(y: u32) -> u32 {
    (688 - y) % 688
}

const fn fe(k: K, plane: usize, enc: Enc, buf: BufSel) -> FullEntry {
    FullEntry { k, plane, enc, buf, plane2: None, after: None }
}
const fn fe_after(k: K, plane: usize, enc: Enc, buf: BufSel, after: K) -> FullEntry {
    FullEntry { k, plane, enc, buf, plane2: None, after: Some(after) }
}
const fn fe2(k: K, plane: usize, enc: Enc, buf: BufSel, plane2: usize) -> FullEntry {
    FullEntry { k, plane, enc, buf, plane2: Some((plane2, Enc::Id)), after: None }
}
const fn fe2e(k: K, plane: usize, enc: Enc, buf: BufSel, plane2: usize, enc2: Enc) -> FullEntry {
    FullEntry { k, plane, enc, buf, plane2: Some((plane2, enc2)), after: None }
}
const fn pe(k: K, plane: usize, enc: Enc) -> PartialEntry {
    PartialEntry { k, plane, enc, after: None, two_planes: false, is_fill: false }
}
const fn pe_after(k: K, plane: usize, enc: Enc, after: K) -> PartialEntry {
    PartialEntry { k, plane, enc, after: Some(after), two_planes: false, is_fill: false }
}

const BASE: &[K] = &[K::WakeUp, K::Sleep, K::UpdateFrame, K::UpdateAndDisplay, K::Display, K::Clear, K::SetBg, K::WaitIdle];

macro_rules! ops {
    ($($k:ident),*) => { &[K::WakeUp, K::Sleep, K::UpdateFrame, K::UpdateAndDisplay, K::Display, K::Clear, K::SetBg, K::WaitIdle, $(K::$k),*] };
}

const SSD_FULL: &[FullEntry] = &[fe(K::UpdateFrame, 0, Enc::Id, BufSel::Bw), fe(K::UpdateAndDisplay, 0, Enc::Id, BufSel::Bw)];
const UC_NEW_FULL: &[FullEntry] = &[fe(K::UpdateFrame, 1, Enc::Id, BufSel::Bw), fe(K::UpdateAndDisplay, 1, Enc::Id, BufSel::Bw)];
const TRI_SSD_FULL: &[FullEntry] = &[
    fe(K::UpdateFrame, 0, Enc::Id, BufSel::Bw),
    fe(K::UpdateAndDisplay, 0, Enc::Id, BufSel::Bw),
    fe2(K::UpdateColor, 0, Enc::Id, BufSel::Bw, 1),
    fe(K::Achromatic, 0, Enc::Id, BufSel::Bw),
    fe_after(K::Chromatic, 1, Enc::Id, BufSel::Chr, K::Achromatic),
];
const TRI_UC_FULL: &[FullEntry] = TRI_SSD_FULL; // DTM1 = plane 0, DTM2 = plane 1

macro_rules! spec {
    ($($f:ident : $v:expr),* $(,)?) => {
        Spec { $($f: $v),* }
    };
}

const SSD_DEF: Spec = Spec {
    name: "",
    w: 0,
    h: 0,
    family: Family::Ssd,
    ram: (0, 0),
    x_pixel_units: false,
    bpp1: 1,
    bpp2: 1,
    win_fmt: WinFmt::None,
    xywl: false,
    busy_low: false,
    busy_held_after_pof: false,
    color: ColorKind::Bw,
    alias_color: ColorKind::Bw,
    display: disp::d1in54,
    bwrbit: false,
    alias_planes: 1,
    alias_bpp: 1,
    single_byte: true,
    make: A1in54::make,
    full: SSD_FULL,
    partial: &[],
    ops: BASE,
    lut: LutKind::None,
    row_map: ident,
    essential: &[],
    needs_pon: false,
    sleep_sig: SleepSig::Ssd,
    reinit_ops: &[],
};
const UC_DEF: Spec = Spec {
    name: "",
    w: 0,
    h: 0,
    family: Family::Uc,
    ram: (0, 0),
    x_pixel_units: false,
    bpp1: 1,
    bpp2: 1,
    win_fmt: WinFmt::None,
    xywl: false,
    busy_low: true,
    busy_held_after_pof: false,
    color: ColorKind::Bw,
    alias_color: ColorKind::Bw,
    display: disp::d4in2,
    bwrbit: false,
    alias_planes: 1,
    alias_bpp: 1,
    single_byte: true,
    make: A4in2::make,
    full: UC_NEW_FULL,
    partial: &[],
    ops: BASE,
    lut: LutKind::None,
    row_map: ident,
    essential: &[],
    needs_pon: true,
    sleep_sig: SleepSig::Uc,
    reinit_ops: &[],
};

pub static SPECS: &[Spec] = &[
    Spec {
        name: "epd1in02",
        w: 80,
        h: 128,
        win_fmt: WinFmt::W5,
make: A1in02::make,
        display: disp::d1in02,
        full: &[
            fe(K::UpdateFrame, 1, Enc::Id, BufSel::Bw),
            fe(K::UpdateAndDisplay, 1, Enc::Id, BufSel::Bw),
            fe(K::UpdateOld, 0, Enc::Id, BufSel::Bw),
            fe_after(K::UpdateNew, 1, Enc::Id, BufSel::Bw, K::UpdateOld),
        ],
        partial: &[pe(K::PartialOld, 0, Enc::Id), pe_after(K::PartialNew, 1, Enc::Id, K::PartialOld), PartialEntry { k: K::ClearPartial, plane: 1, enc: Enc::Id, after: None, two_planes: false, is_fill: true }],
        ops: ops!(SetLut, UpdateOld, UpdateNew, PartialOld, PartialNew, ClearPartial),
        lut: LutKind::FullQuick,
        essential: &[&[0x00, 0x01, 0x61, 0x23, 0x24]],
        ..UC_DEF
    },
    Spec {
        name: "epd1in54",
        w: 200,
        h: 200,
        ram: (25, 200),
make: A1in54::make,
        display: disp::d1in54,
        partial: &[pe(K::UpdatePartial, 0, Enc::Id)],
        ops: ops!(SetLut, UpdatePartial),
        lut: LutKind::FullQuick,
        essential: &[&[0x01, 0x11, 0x32]],
        ..SSD_DEF
    },
    Spec {
        name: "epd1in54_v2",
        w: 200,
        h: 200,
        ram: (25, 200),
make: A1in54v2::make,
        display: disp::d1in54,
        partial: &[pe(K::UpdatePartial, 0, Enc::Id)],
        ops: ops!(SetLut, UpdatePartial),
        lut: LutKind::FullQuick,
        essential: &[&[0x01, 0x11, 0x44, 0x45, 0x32]],
        ..SSD_DEF
    },
    Spec {
        name: "epd1in54b",
        w: 200,
        h: 200,
        bpp1: 2,
make: A1in54b::make,
        display: disp::d1in54b,
        full: &[
            fe(K::UpdateFrame, 0, Enc::X2, BufSel::Bw),
            fe(K::UpdateAndDisplay, 0, Enc::X2, BufSel::Bw),
            fe2(K::UpdateColor, 0, Enc::X2, BufSel::Bw, 1),
            fe(K::Achromatic, 0, Enc::X2, BufSel::Bw),
            fe_after(K::Chromatic, 1, Enc::Id, BufSel::Bw, K::Achromatic),
        ],
        ops: ops!(SetLut, UpdateColor, Achromatic, Chromatic),
        lut: LutKind::Fixed,
        essential: &[&[0x01, 0x06, 0x00, 0x61]],
        ..UC_DEF
    },
    Spec {
        name: "epd1in54c",
        w: 152,
        h: 152,
make: A1in54c::make,
        display: disp::d1in54c,
        full: &[
            fe(K::UpdateFrame, 0, Enc::Id, BufSel::Bw),
            fe(K::UpdateAndDisplay, 0, Enc::Id, BufSel::Bw),
            fe2(K::UpdateColor, 0, Enc::Id, BufSel::Bw, 1),
            fe(K::Achromatic, 0, Enc::Id, BufSel::Bw),
            fe_after(K::Chromatic, 1, Enc::Id, BufSel::Bw, K::Achromatic),
        ],
        ops: ops!(SetLut, UpdateColor, Achromatic, Chromatic),
        essential: &[&[0x06, 0x00, 0x61]],
        ..UC_DEF
    },
    Spec {
        name: "epd2in13_v2",
        w: 122,
        h: 250,
        ram: (16, 250),
make: A2in13v2::make,
        display: disp::d2in13v2,
        full: &[fe(K::UpdateFrame, 0, Enc::Id, BufSel::Bw), fe(K::UpdateAndDisplay, 0, Enc::Id, BufSel::Bw), fe(K::SetPartialBase, 1, Enc::Id, BufSel::Bw)],
        partial: &[pe(K::UpdatePartial, 0, Enc::Id)],
        ops: ops!(SetLut, UpdatePartial, SetRefresh, SetPartialBase),
        lut: LutKind::FullQuick,
        essential: &[&[0x01, 0x11, 0x44, 0x45, 0x32], &[0x2C, 0x32, 0x3C]],
        reinit_ops: &[K::SetRefresh],
        ..SSD_DEF
    },
    Spec {
        name: "epd2in13b_v4",
        w: 122,
        h: 250,
        ram: (16, 250),
        color: ColorKind::Tri,
        alias_color: ColorKind::Tri,
        alias_planes: 2,
make: A2in13bv4::make,
        display: disp::d2in13bv4,
        full: TRI_SSD_FULL,
        ops: ops!(UpdateColor, Achromatic, Chromatic),
        essential: &[&[0x01, 0x11, 0x44, 0x45, 0x21]],
        ..SSD_DEF
    },
    Spec {
        name: "epd2in13bc",
        w: 104,
        h: 212,
        color: ColorKind::Tri,
        alias_color: ColorKind::Tri,
        bwrbit: true,
        alias_planes: 2,
make: A2in13bc::make,
        display: disp::d2in13bc,
        full: TRI_UC_FULL,
        ops: ops!(SetLut, UpdateColor, Achromatic, Chromatic, SetBorder),
        essential: &[&[0x06, 0x00, 0x61]],
        ..UC_DEF
    },
    Spec {
        name: "epd2in66b",
        w: 152,
        h: 296,
        ram: (20, 296),
        color: ColorKind::Tri,
        alias_color: ColorKind::Tri,
        alias_planes: 2,
make: A2in66b::make,
        display: disp::d2in66b,
        full: TRI_SSD_FULL,
        partial: &[pe(K::UpdatePartial, 0, Enc::Id)],
        ops: ops!(SetLut, UpdatePartial, UpdateColor, Achromatic, Chromatic),
        essential: &[&[0x11, 0x44, 0x45, 0x21]],
        ..SSD_DEF
    },
    Spec {
        name: "epd2in7",
        w: 176,
        h: 264,
        xywl: true,
make: A2in7::make,
        display: disp::d2in7,
        partial: &[pe(K::UpdatePartial, 0, Enc::Id)],
        ops: ops!(SetLut, UpdatePartial),
        lut: LutKind::Fixed,
        essential: &[&[0x01, 0x06, 0x00]],
        ..UC_DEF
    },
    Spec {
        name: "epd2in7_v2",
        w: 176,
        h: 264,
        ram: (22, 264),
make: A2in7v2::make,
        display: disp::d2in7v2,
        partial: &[pe(K::UpdatePartial, 0, Enc::Id)],
        ops: ops!(SetLut, UpdatePartial),
        essential: &[&[0x11, 0x44, 0x45]],
        ..SSD_DEF
    },
    Spec {
        name: "epd2in7b",
        w: 176,
        h: 264,
        xywl: true,
make: A2in7b::make,
        display: disp::d2in7b,
        full: &[
            fe(K::UpdateFrame, 0, Enc::Inv, BufSel::Bw),
            fe(K::UpdateAndDisplay, 0, Enc::Inv, BufSel::Bw),
            fe2e(K::UpdateColor, 0, Enc::Inv, BufSel::Bw, 1, Enc::Inv),
            fe(K::Achromatic, 0, Enc::Inv, BufSel::Bw),
            fe_after(K::Chromatic, 1, Enc::Inv, BufSel::Bw, K::Achromatic),
        ],
        partial: &[pe(K::UpdatePartial, 0, Enc::Inv), pe(K::PartialAchromatic, 0, Enc::Inv), pe(K::PartialChromatic, 1, Enc::Inv)],
        ops: ops!(SetLut, UpdatePartial, UpdateColor, Achromatic, Chromatic, PartialAchromatic, PartialChromatic, DisplayPartial),
        lut: LutKind::Fixed,
        essential: &[&[0x00, 0x01, 0x06]],
        ..UC_DEF
    },
    Spec {
        name: "epd2in9",
        w: 128,
        h: 296,
        ram: (16, 296),
make: A2in9::make,
        display: disp::d2in9,
        partial: &[pe(K::UpdatePartial, 0, Enc::Id)],
        ops: ops!(SetLut, UpdatePartial),
        lut: LutKind::FullQuick,
        essential: &[&[0x01, 0x11, 0x32]],
        ..SSD_DEF
    },
    Spec {
        name: "epd2in9_v2",
        w: 128,
        h: 296,
        ram: (16, 296),
make: A2in9v2::make,
        display: disp::d2in9v2,
        full: &[
            fe(K::UpdateFrame, 0, Enc::Id, BufSel::Bw),
            fe(K::UpdateAndDisplay, 0, Enc::Id, BufSel::Bw),
            fe(K::UpdateOld, 0, Enc::Id, BufSel::Bw),
            fe_after(K::UpdateNew, 0, Enc::Id, BufSel::Bw, K::UpdateOld),
            fe_after(K::UpdateAndDisplayNew, 0, Enc::Id, BufSel::Bw, K::UpdateOld),
        ],
        partial: &[pe(K::UpdatePartial, 0, Enc::Id)],
        ops: ops!(SetLut, UpdatePartial, UpdateOld, UpdateNew, DisplayNew, UpdateAndDisplayNew),
        lut: LutKind::None,
        essential: &[&[0x01, 0x11, 0x44, 0x45, 0x32], &[0x32, 0x37, 0x3C]],
        reinit_ops: &[K::UpdateNew, K::UpdateAndDisplayNew],
        ..SSD_DEF
    },
    Spec {
        name: "epd2in9b_v4",
        w: 128,
        h: 296,
        ram: (16, 296),
        color: ColorKind::Tri,
        alias_color: ColorKind::Tri,
        bwrbit: true,
        alias_planes: 2,
        single_byte: false,
make: A2in9bv4::make,
        display: disp::d2in9bv4,
        full: &[
            fe(K::UpdateFrame, 0, Enc::Id, BufSel::Bw),
            fe(K::UpdateAndDisplay, 0, Enc::Id, BufSel::Bw),
            fe2(K::UpdateColor, 0, Enc::Id, BufSel::Bw, 1),
            fe(K::Achromatic, 0, Enc::Id, BufSel::Bw),
            fe_after(K::Chromatic, 1, Enc::Id, BufSel::Chr, K::Achromatic),
            fe(K::UpdateAndDisplayBase, 0, Enc::Id, BufSel::Bw),
        ],
        partial: &[pe(K::UpdatePartial, 0, Enc::Id)],
        ops: ops!(SetLut, UpdatePartial, UpdateColor, Achromatic, Chromatic, UpdateAndDisplayBase, DisplayPartial),
        essential: &[&[0x01, 0x11, 0x44, 0x45, 0x21]],
        ..SSD_DEF
    },
    Spec {
        name: "epd2in9bc",
        w: 128,
        h: 296,
make: A2in9bc::make,
        display: disp::d2in9bc,
        full: &[
            fe(K::UpdateFrame, 0, Enc::Id, BufSel::Bw),
            fe(K::UpdateAndDisplay, 0, Enc::Id, BufSel::Bw),
            fe2(K::UpdateColor, 0, Enc::Id, BufSel::Bw, 1),
            fe(K::Achromatic, 0, Enc::Id, BufSel::Bw),
            fe_after(K::Chromatic, 1, Enc::Id, BufSel::Bw, K::Achromatic),
        ],
        ops: ops!(SetLut, UpdateColor, Achromatic, Chromatic, SetBorder),
        essential: &[&[0x06, 0x00, 0x61]],
        ..UC_DEF
    },
    Spec {
        name: "epd2in9d",
        w: 128,
        h: 296,
        win_fmt: WinFmt::W7,
make: A2in9d::make,
        display: disp::d2in9d,
        partial: &[pe(K::UpdatePartial, 1, Enc::Id)],
        ops: ops!(SetLut, UpdatePartial),
        lut: LutKind::Fixed,
        essential: &[&[0x00, 0x61], &[0x01, 0x06, 0x00, 0x61]],
        reinit_ops: &[K::UpdatePartial],
        ..UC_DEF
    },
    Spec {
        name: "epd3in7",
        sleep_sig: SleepSig::Uc,
        w: 280,
        h: 480,
        ram: (35, 480),
        x_pixel_units: true,
make: A3in7::make,
        display: disp::d3in7,
        ops: ops!(SetLut),
        lut: LutKind::FullQuick,
        essential: &[&[0x01, 0x11, 0x44, 0x45, 0x32]],
        ..SSD_DEF
    },
    Spec {
        name: "epd4in2",
        w: 400,
        h: 300,
        win_fmt: WinFmt::W9,
make: A4in2::make,
        display: disp::d4in2,
        full: &[
            fe(K::UpdateFrame, 1, Enc::Id, BufSel::Bw),
            fe(K::UpdateAndDisplay, 1, Enc::Id, BufSel::Bw),
            fe(K::UpdateOld, 0, Enc::Id, BufSel::Bw),
            fe_after(K::UpdateNew, 1, Enc::Id, BufSel::Bw, K::UpdateOld),
            fe_after(K::UpdateAndDisplayNew, 1, Enc::Id, BufSel::Bw, K::UpdateOld),
        ],
        partial: &[
            pe(K::UpdatePartial, 1, Enc::Id),
            pe(K::PartialOld, 0, Enc::Id),
            pe_after(K::PartialNew, 1, Enc::Id, K::PartialOld),
            PartialEntry { k: K::ClearPartial, plane: 1, enc: Enc::Id, after: None, two_planes: false, is_fill: true },
        ],
        ops: ops!(SetLut, UpdatePartial, UpdateOld, UpdateNew, DisplayNew, UpdateAndDisplayNew, PartialOld, PartialNew, ClearPartial),
        lut: LutKind::FullQuick,
        essential: &[&[0x01, 0x06, 0x00, 0x61]],
        ..UC_DEF
    },
    Spec {
        name: "epd5in65f",
        w: 600,
        h: 448,
        family: Family::Acep,
        bpp1: 4,
        busy_held_after_pof: false,
        color: ColorKind::Oct,
        alias_color: ColorKind::Oct,
        alias_bpp: 4,
make: A5in65f::make,
        display: disp::d5in65f,
        full: &[fe(K::UpdateFrame, 0, Enc::Id, BufSel::Whole), fe(K::UpdateAndDisplay, 0, Enc::Id, BufSel::Whole)],
        ops: BASE,
        essential: &[&[0x00, 0x01, 0x61]],
        ..UC_DEF
    },
    Spec {
        name: "epd5in83_v2",
        w: 648,
        h: 480,
make: A5in83v2::make,
        display: disp::d5in83v2,
        ops: BASE,
        essential: &[&[0x01, 0x00, 0x61]],
        ..UC_DEF
    },
    Spec {
        name: "epd5in83b_v2",
        w: 648,
        h: 480,
        win_fmt: WinFmt::W9,
        alias_planes: 2,
make: A5in83bv2::make,
        display: disp::d5in83bv2,
        full: &[
            fe(K::UpdateFrame, 0, Enc::Id, BufSel::Bw),
            fe(K::UpdateAndDisplay, 0, Enc::Id, BufSel::Bw),
            fe2(K::UpdateColor, 0, Enc::Id, BufSel::Bw, 1),
            fe(K::Achromatic, 0, Enc::Id, BufSel::Bw),
            fe_after(K::Chromatic, 1, Enc::Id, BufSel::Chr, K::Achromatic),
        ],
        partial: &[pe(K::UpdatePartial, 0, Enc::Id)],
        ops: ops!(UpdatePartial, UpdateColor, Achromatic, Chromatic),
        essential: &[&[0x06, 0x01, 0x00, 0x61]],
        ..UC_DEF
    },
    Spec {
        name: "epd7in3f",
        w: 800,
        h: 480,
        family: Family::Acep,
        bpp1: 4,
        busy_held_after_pof: false,
        color: ColorKind::Oct,
        alias_color: ColorKind::Oct,
        alias_bpp: 4,
make: A7in3f::make,
        display: disp::d7in3f,
        full: &[fe(K::UpdateFrame, 0, Enc::Id, BufSel::Whole), fe(K::UpdateAndDisplay, 0, Enc::Id, BufSel::Whole)],
        ops: ops!(Show7Block),
        essential: &[&[0xAA, 0x00, 0x01, 0x61]],
        ..UC_DEF
    },
    Spec {
        name: "epd7in5",
        w: 640,
        h: 384,
        bpp1: 4,
        single_byte: false,
make: A7in5::make,
        display: disp::d7in5,
        full: &[fe(K::UpdateFrame, 0, Enc::X4, BufSel::Bw), fe(K::UpdateAndDisplay, 0, Enc::X4, BufSel::Bw)],
        ops: BASE,
        essential: &[&[0x01, 0x00, 0x06, 0x61]],
        ..UC_DEF
    },
    Spec {
        name: "epd7in5_hd",
        w: 880,
        h: 528,
        ram: (110, 688),
        x_pixel_units: true,
        single_byte: false,
make: A7in5hd::make,
        display: disp::d7in5hd,
        ops: BASE,
        row_map: map_7in5hd,
        essential: &[&[0x01, 0x11, 0x44, 0x45]],
        ..SSD_DEF
    },
    Spec {
        name: "epd7in5_v2",
        w: 800,
        h: 480,
        single_byte: false,
make: A7in5v2::make,
        display: disp::d7in5v2,
        ops: BASE,
        essential: &[&[0x01, 0x00, 0x61]],
        ..UC_DEF
    },
    Spec {
        name: "epd7in5b_v2",
        w: 800,
        h: 480,
        win_fmt: WinFmt::W9,
        color: ColorKind::Tri,
        alias_color: ColorKind::Tri,
        alias_planes: 2,
        single_byte: false,
make: A7in5bv2::make,
        display: disp::d7in5bv2,
        full: &[
            fe2(K::UpdateFrame, 0, Enc::Id, BufSel::Whole, 1),
            fe2(K::UpdateAndDisplay, 0, Enc::Id, BufSel::Whole, 1),
            fe2(K::UpdateColor, 0, Enc::Id, BufSel::Bw, 1),
            fe(K::Achromatic, 0, Enc::Id, BufSel::Bw),
            fe_after(K::Chromatic, 1, Enc::Id, BufSel::Chr, K::Achromatic),
        ],
        partial: &[PartialEntry { k: K::UpdatePartial2, plane: 0, enc: Enc::Id, after: None, two_planes: true, is_fill: false }],
        ops: ops!(UpdateColor, Achromatic, Chromatic, UpdatePartial2),
        essential: &[&[0x01, 0x00, 0x61]],
        ..UC_DEF
    },
];

#[allow(unused_macros)]
macro_rules! _quiet {
    () => {
        spec!()
    };
}

pub fn spec_by_name(n: &str) -> Option<&'static Spec> {
    SPECS.iter().find(|s| s.name == n)
}


// =====================================================================================
// Display aliases behind one object-safe trait
// =====================================================================================
use embedded_graphics_core::prelude::*;
use epd_waveshare::graphics::DisplayRotation;

pub fn rotation(i: u32) -> DisplayRotation {
    match i & 3 {
        0 => DisplayRotation::Rotate0,
        1 => DisplayRotation::Rotate90,
        2 => DisplayRotation::Rotate180,
        _ => DisplayRotation::Rotate270,
    }
}

pub trait DynDisplay {
    fn set_rotation(&mut self, r: u32);
    fn set_pixel(&mut self, x: i32, y: i32, color: u32);
    fn fill(&mut self, color: u32);
    fn buffer(&self) -> &[u8];
    fn bw(&self) -> &[u8];
    fn chr(&self) -> &[u8];
    fn size(&self) -> (u32, u32);
}

macro_rules! dyn_display {
    ($fname:ident, $ty:ty, $col:path, mono) => {
        pub fn $fname() -> Box<dyn DynDisplay> {
            struct D(Box<$ty>);
            impl DynDisplay for D {
                fn set_rotation(&mut self, r: u32) {
                    self.0.set_rotation(rotation(r));
                }
                fn set_pixel(&mut self, x: i32, y: i32, color: u32) {
                    self.0.set_pixel(Pixel(Point::new(x, y), $col(color)));
                }
                fn fill(&mut self, color: u32) {
                    let _ = DrawTarget::clear(&mut *self.0, $col(color));
                }
                fn buffer(&self) -> &[u8] {
                    self.0.buffer()
                }
                fn bw(&self) -> &[u8] {
                    self.0.buffer()
                }
                fn chr(&self) -> &[u8] {
                    &[]
                }
                fn size(&self) -> (u32, u32) {
                    let s = OriginDimensions::size(&*self.0);
                    (s.width, s.height)
                }
            }
            Box::new(D(Box::new(<$ty>::default())))
        }
    };
    ($fname:ident, $ty:ty, $col:path, tri) => {
        pub fn $fname() -> Box<dyn DynDisplay> {
            struct D(Box<$ty>);
            impl DynDisplay for D {
                fn set_rotation(&mut self, r: u32) {
                    self.0.set_rotation(rotation(r));
                }
                fn set_pixel(&mut self, x: i32, y: i32, color: u32) {
                    self.0.set_pixel(Pixel(Point::new(x, y), $col(color)));
                }
                fn fill(&mut self, color: u32) {
                    let _ = DrawTarget::clear(&mut *self.0, $col(color));
                }
                fn buffer(&self) -> &[u8] {
                    self.0.buffer()
                }
                fn bw(&self) -> &[u8] {
                    self.0.bw_buffer()
                }
                fn chr(&self) -> &[u8] {
                    self.0.chromatic_buffer()
                }
                fn size(&self) -> (u32, u32) {
                    let s = OriginDimensions::size(&*self.0);
                    (s.width, s.height)
                }
            }
            Box::new(D(Box::new(<$ty>::default())))
        }
    };
}

pub mod disp {
    use super::*;
    dyn_display!(d1in02, ew::epd1in02::Display1in02, bw, mono);
    dyn_display!(d1in54, ew::epd1in54::Display1in54, bw, mono);
    dyn_display!(d1in54b, ew::epd1in54b::Display1in54b, bw, mono);
    dyn_display!(d1in54c, ew::epd1in54c::Display1in54c, bw, mono);
    dyn_display!(d2in13v2, ew::epd2in13_v2::Display2in13, bw, mono);
    dyn_display!(d2in13bv4, ew::epd2in13b_v4::Display2in13b, tri, tri);
    dyn_display!(d2in13bc, ew::epd2in13bc::Display2in13bc, tri, tri);
    dyn_display!(d2in66b, ew::epd2in66b::Display2in66b, tri, tri);
    dyn_display!(d2in7, ew::epd2in7::Display2in7, bw, mono);
    dyn_display!(d2in7v2, ew::epd2in7_v2::Display2in7, bw, mono);
    dyn_display!(d2in7b, ew::epd2in7b::Display2in7b, bw, mono);
    dyn_display!(d2in9, ew::epd2in9::Display2in9, bw, mono);
    dyn_display!(d2in9v2, ew::epd2in9_v2::Display2in9, bw, mono);
    dyn_display!(d2in9bv4, ew::epd2in9b_v4::Display2in9b, tri, tri);
    dyn_display!(d2in9bc, ew::epd2in9bc::Display2in9bc, bw, mono);
    dyn_display!(d2in9d, ew::epd2in9d::Display2in9d, bw, mono);
    dyn_display!(d3in7, ew::epd3in7::Display3in7, bw, mono);
    dyn_display!(d4in2, ew::epd4in2::Display4in2, bw, mono);
    dyn_display!(d5in65f, ew::epd5in65f::Display5in65f, oct, mono);
    dyn_display!(d5in83v2, ew::epd5in83_v2::Display5in83, bw, mono);
    dyn_display!(d5in83bv2, ew::epd5in83b_v2::Display5in83, tri, tri);
    dyn_display!(d7in3f, ew::epd7in3f::Display7in3f, oct, mono);
    dyn_display!(d7in5, ew::epd7in5::Display7in5, bw, mono);
    dyn_display!(d7in5hd, ew::epd7in5_hd::Display7in5, bw, mono);
    dyn_display!(d7in5v2, ew::epd7in5_v2::Display7in5, bw, mono);
    dyn_display!(d7in5bv2, ew::epd7in5b_v2::Display7in5, tri, tri);
}
