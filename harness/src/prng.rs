//! Small deterministic PRNG (splitmix64 / xorshift) — all randomness derives from VERIF_SEED.
#[derive(Clone, Debug)]
pub struct Rng(pub u64);

pub fn mix64(mut z: u64) -> u64 {
    z = z.wrapping_add(0x9E3779B97F4A7C15);
    z = (z ^ (z >> 30)).wrapping_mul(0xBF58476D1CE4E5B9);
    z = (z ^ (z >> 27)).wrapping_mul(0x94D049BB133111EB);
    z ^ (z >> 31)
}

impl Rng {
    pub fn new(seed: u64) -> Rng {
        Rng(mix64(seed ^ 0xA5A5_5A5A_DEAD_BEEF))
    }
    pub fn derive(seed: u64, salt: u64) -> Rng {
        Rng(mix64(mix64(seed) ^ salt.wrapping_mul(0x9E3779B97F4A7C15)))
    }
    pub fn next(&mut self) -> u64 {
        self.0 = self.0.wrapping_add(0x9E3779B97F4A7C15);
        let mut z = self.0;
        z = (z ^ (z >> 30)).wrapping_mul(0xBF58476D1CE4E5B9);
        z = (z ^ (z >> 27)).wrapping_mul(0x94D049BB133111EB);
        z ^ (z >> 31)
    }
    /// uniform in 0..n (n>0)
    pub fn below(&mut self, n: u64) -> u64 {
        self.next() % n
    }
    pub fn range(&mut self, lo: i64, hi_incl: i64) -> i64 {
        lo + (self.below((hi_incl - lo + 1) as u64) as i64)
    }
    pub fn pick<'a, T>(&mut self, v: &'a [T]) -> &'a T {
        &v[self.below(v.len() as u64) as usize]
    }
    pub fn chance(&mut self, num: u64, den: u64) -> bool {
        self.below(den) < num
    }
}

pub fn hash_bytes(b: &[u8]) -> u64 {
    let mut h: u64 = 0xcbf29ce484222325;
    for &x in b {
        h ^= x as u64;
        h = h.wrapping_mul(0x100000001b3);
    }
    mix64(h)
}
pub fn hash_str(s: &str) -> u64 {
    hash_bytes(s.as_bytes())
}
