//! C01 — pixel-exact full-frame delivery.
//! Offline checkers over the wire log and the reconstructed controller RAM after each call.
use crate::hal::{Ev, Pin};
use crate::json::J;
use crate::model::{Ctrl, Family, Plane};
use crate::ops::*;
use crate::panels::*;
use crate::props::common::*;
use crate::prng::{hash_bytes, hash_str, mix64, Rng};
use crate::report::{par_run, Failure, Report};
use crate::Ctx;
use std::sync::Arc;

pub fn ram_opcode(spec: &Spec, plane: usize) -> u8 {
    match spec.family {
        Family::Ssd => [0x24, 0x26][plane],
        _ => [0x10, 0x13][plane],
    }
}

pub fn enc_factor(e: Enc) -> usize {
    match e {
        Enc::Id | Enc::Inv => 1,
        Enc::X2 => 2,
        Enc::X4 => 4,
    }
}

/// Compare a model plane with the expected encoded image laid out over the panel area through
/// the panel's address map. Returns the first problem found: (class, detail).
pub fn compare_plane(spec: &Spec, pl: &Plane, want: &[u8], enc: Enc, want_wc: Option<u16>) -> Option<(&'static str, String)> {
    let erb = ((spec.w * spec.alias_bpp + 7) / 8) as usize * enc_factor(enc); // encoded bytes per panel row
    if want.len() != erb * spec.h as usize {
        return Some(("wire-length-differs", format!("expected image has {} bytes, panel plane needs {}", want.len(), erb * spec.h as usize)));
    }
    if (pl.row_bytes as usize) < erb {
        return Some(("primary-plane-differs", format!("plane rows are {} bytes, encoded rows need {}", pl.row_bytes, erb)));
    }
    let mut in_area = vec![false; pl.data.len()];
    for y in 0..spec.h {
        let ry = (spec.row_map)(y);
        for xb in 0..erb {
            let idx = ry as usize * pl.row_bytes as usize + xb;
            in_area[idx] = true;
            let w = want[y as usize * erb + xb];
            if let Some(k) = want_wc {
                if pl.wc[idx] == 0 {
                    return Some(("byte-never-written", format!("row {} byte {} of the plane was not written by the call", y, xb)));
                }
                if pl.wc[idx] != k {
                    return Some(("byte-written-twice", format!("row {} byte {} written {} times (expected {})", y, xb, pl.wc[idx], k)));
                }
            }
            if pl.data[idx] != w {
                return Some(("primary-plane-differs", format!("row {} byte {}: RAM holds {:02X}, image has {:02X}", y, xb, pl.data[idx], w)));
            }
        }
    }
    if want_wc.is_some() {
        for (i, a) in in_area.iter().enumerate() {
            if !a && pl.wc[i] != 0 {
                return Some(("write-outside-panel", format!("RAM byte {} (row {}, col {}) outside the panel area was written", i, i / pl.row_bytes as usize, i % pl.row_bytes as usize)));
            }
        }
    }
    None
}

/// rule for planes other than the primary: complete uniform fill(s), complete copy, or pattern fill
pub fn check_other_plane(spec: &Spec, pl: &Plane, copies: &[(&[u8], Enc)]) -> Option<(&'static str, String)> {
    if pl.writes == 0 && pl.pattern_fills == 0 {
        return None;
    }
    // complete passes only: uniform write count over the panel area, nothing outside (except pattern fills)
    let mut k: Option<u16> = None;
    let rb = pl.row_bytes as usize;
    let erb_min = spec.row_bytes() as usize;
    // the area may be wider if the plane is 2/4 bpp; use the plane's own row length when it is a UC plane
    let erb = if spec.family == Family::Ssd { erb_min } else { rb };
    let mut first: Option<u8> = None;
    let mut uniform = true;
    for y in 0..spec.h {
        let ry = (spec.row_map)(y) as usize;
        for xb in 0..erb {
            let idx = ry * rb + xb;
            match k {
                None => k = Some(pl.wc[idx]),
                Some(kk) => {
                    if pl.wc[idx] != kk {
                        return Some(("other-plane-partial", format!("plane written incompletely: row {} byte {} written {} times, first byte {} times", y, xb, pl.wc[idx], kk)));
                    }
                }
            }
            match first {
                None => first = Some(pl.data[idx]),
                Some(f) => {
                    if pl.data[idx] != f {
                        uniform = false;
                    }
                }
            }
        }
    }
    if k == Some(0) {
        return Some(("other-plane-partial", "plane received data but none inside the panel area".into()));
    }
    if uniform {
        return None;
    }
    for (img, enc) in copies {
        if compare_plane(spec, pl, img, *enc, None).is_none() {
            return None;
        }
    }
    Some(("other-plane-mixed", "plane holds neither a uniform fill nor a copy of the image".into()))
}

/// D/C-high payload following each occurrence of RAM command `ramop` in the op's log segment
pub fn payloads(log: &[Ev], bytes: &[u8], ramop: u8) -> Vec<Vec<u8>> {
    let mut out: Vec<Vec<u8>> = Vec::new();
    let mut collecting = false;
    for e in log {
        if let Ev::Spi { levels, off, len, ok: true } = e {
            let dc = levels & Pin::Dc.bit() != 0;
            if !dc {
                collecting = *len == 1 && bytes[*off as usize] == ramop;
                if collecting {
                    out.push(Vec::new());
                }
            } else if collecting {
                out.last_mut().unwrap().extend_from_slice(&bytes[*off as usize..(*off + *len) as usize]);
            }
        }
    }
    out
}

#[derive(Clone)]
struct Case {
    spec: &'static Spec,
    entry: FullEntry,
    img: Img,
    img2: Img,
    tag: String,
    /// predecessor symbols (context): the statement is not restricted to freshly constructed drivers
    pred: Vec<usize>,
    /// run on a panel that really is busy for a few polls after every busy-raising command and that
    /// does not latch commands sent while BUSY is asserted
    busy: bool,
}

fn prefix_for(spec: &Spec, e: &FullEntry) -> Vec<Op> {
    match e.after {
        Some(k) => vec![frame_op(spec, k, 77)],
        None => vec![],
    }
}

/// run one full-frame entry point with the given image(s) and check clauses 1-3
/// a failure seen after a predecessor is reported (with an `after:` tag) only when the same call
/// on a fresh driver does not fail the same way
fn check_frame(c: &Case, variant: &str, rep: &mut Report) {
    let mut tmp = Report::new();
    check_frame_one(c, variant, &mut tmp);
    if !c.pred.is_empty() && !tmp.failures.is_empty() {
        let mut fresh = Report::new();
        let mut fc = c.clone();
        if c.busy {
            // baseline of a busy context: the same history on an always-idle panel
            fc.busy = false;
        } else {
            fc.pred = vec![];
        }
        check_frame_one(&fc, variant, &mut fresh);
        let strip = |f: &Failure| {
            let mut g = f.clone();
            g.tags.retain(|t| !t.starts_with("after:"));
            g.sig()
        };
        let fresh_sigs: Vec<String> = fresh.failures.iter().map(|f| strip(f)).collect();
        let keep: Vec<Failure> = tmp.failures.iter().filter(|f| !fresh_sigs.contains(&strip(f))).cloned().collect();
        tmp.failures.clear();
        tmp.fail_counts.clear();
        let syms = syms_shapes(c.spec);
        for f in keep {
            if c.pred.len() == 1 {
                tmp.fail(f);
                continue;
            }
            // name the smallest predecessor history that still provokes this failure
            let target = strip(&f);
            let run_with = |t: &[usize]| -> Option<Failure> {
                let mut g = Grammar::default();
                for i in t {
                    if !g.allows(c.spec, &syms[*i]) {
                        return None;
                    }
                    g.step(c.spec, &syms[*i]);
                }
                let mut r = Report::new();
                let mut tc = c.clone();
                tc.pred = t.to_vec();
                check_frame_one(&tc, variant, &mut r);
                r.failures.iter().find(|x| strip(x) == target).cloned()
            };
            let min = minimize_history(&c.pred, &target, &|t: &[usize]| if t.is_empty() { None } else { run_with(t).map(|_| target.clone()) });
            let mut g = run_with(&min).unwrap_or(f.clone());
            g.detail = format!("{} | seen after: {}", g.detail, sym_kinds(&syms, &c.pred));
            tmp.fail(g);
        }
    }
    rep.merge(tmp);
}

fn check_frame_one(c: &Case, variant: &str, rep: &mut Report) {
    let spec = c.spec;
    let e = &c.entry;
    rep.eval(spec.name);
    let mut rig = if c.busy {
        match Rig::new(
            spec,
            |b| {
                b.busy_mode = crate::hal::BusyMode::Physical;
                b.chips[0].busy.default_d = 3;
            },
            None,
            false,
        ) {
            Ok(r) => r,
            Err(_) => {
                rep.count("contexts_with_failing_predecessor", 1);
                return;
            }
        }
    } else {
        Rig::simple(spec)
    };
    if c.busy {
        rig.board.borrow_mut().chips[0].drop_while_busy = true;
    }
    let mut pre: Vec<Op> = Vec::new();
    let mut ctx_tag: Option<String> = None;
    if !c.pred.is_empty() {
        let syms = syms_shapes(spec);
        for pi in &c.pred {
            pre.extend(syms[*pi].iter().cloned());
        }
        ctx_tag = Some(format!("after:{}{}", sym_kinds(&syms, &c.pred), if c.busy { ",panel-busy" } else { "" }));
    }
    pre.extend(prefix_for(spec, e));
    for p in &pre {
        if !rig.apply(p).is_ok() {
            rep.count("contexts_with_failing_predecessor", 1);
            return;
        }
    }
    let op = if c.img2 != Img::None { Op::img2(e.k, c.img.clone(), c.img2.clone()) } else { Op::img(e.k, c.img.clone()) };
    rig.board.borrow_mut().chip_mut().mark();
    let o = rig.apply(&op);
    let mut ops = pre.clone();
    ops.push(op.clone());
    let case = case_json(spec, variant, &ops).set("content", c.tag.as_str());
    let mk = |class: &str, mut tags: Vec<String>, detail: String| {
        if let Some(t) = &ctx_tag {
            tags.push(t.clone());
        }
        Failure { panel: spec.name.into(), entry: e.k.name().into(), class: class.into(), tags, detail, case: case.clone() }
    };
    if !o.is_ok() {
        rep.fail(mk("panic", vec![], format!("call returned {}", o.short())));
        return;
    }
    let b = rig.board.borrow();
    let chip = b.chip();
    let segs = op_segments(&b.log);
    let (_, s, en) = *segs.last().unwrap();
    let buf = c.img.make();
    // what each plane is expected to receive
    let (want1, want2): (Vec<u8>, Option<(usize, Vec<u8>, Enc)>) = match (e.plane2, e.buf) {
        (Some((p2, enc2)), BufSel::Whole) if spec.alias_planes == 2 => {
            let half = buf.len() / 2;
            (encode(e.enc, &buf[..half]), Some((p2, encode(enc2, &buf[half..]), enc2)))
        }
        (Some((p2, enc2)), _) => (encode(e.enc, &buf), Some((p2, encode(enc2, &c.img2.make()), enc2))),
        (None, _) => (encode(e.enc, &buf), None),
    };
    // (1) wire: exactly one RAM command for the primary plane carrying exactly the encoded image
    let pls = payloads(&b.log[s..en], &b.bytes, ram_opcode(spec, e.plane));
    rep.count("wire_bytes_compared", want1.len() as u64);
    // a copy of the same image on the same plane command does not occur in any driver: demand exactly one
    let img_payloads: Vec<&Vec<u8>> = pls.iter().collect();
    if img_payloads.is_empty() {
        rep.fail(mk("wire-payload-differs", vec!["no-ram-command".into()], format!("command {:02X} never sent", ram_opcode(spec, e.plane))));
        return;
    }
    let last = img_payloads.last().unwrap();
    if last.len() != want1.len() {
        rep.fail(mk("wire-length-differs", vec![], format!("{} bytes follow command {:02X}, image encodes to {}", last.len(), ram_opcode(spec, e.plane), want1.len())));
    } else if let Some(p) = last.iter().zip(want1.iter()).position(|(a, b)| a != b) {
        rep.fail(mk("wire-payload-differs", vec![], format!("payload byte {} is {:02X}, encoded image has {:02X}", p, last[p], want1[p])));
    }
    if img_payloads.len() > 1 {
        rep.fail(mk("byte-written-twice", vec!["ram-command-repeated".into()], format!("command {:02X} sent {} times in one call", ram_opcode(spec, e.plane), img_payloads.len())));
    }
    // (2) memory
    rep.count("plane_bytes_compared", want1.len() as u64);
    if let Some((class, detail)) = compare_plane(spec, &chip.planes[e.plane], &want1, e.enc, Some(1)) {
        rep.fail(mk(class, vec![], detail));
    }
    // (3) other plane
    let other = 1 - e.plane;
    if spec.family != Family::Acep {
        match &want2 {
            Some((p2, w2, enc2)) if *p2 == other => {
                rep.count("plane_bytes_compared", w2.len() as u64);
                if let Some((class, detail)) = compare_plane(spec, &chip.planes[other], w2, *enc2, Some(1)) {
                    rep.fail(mk(class, vec!["second-plane".into()], detail));
                }
            }
            _ => {
                if chip.planes[other].writes > 0 || chip.planes[other].pattern_fills > 0 {
                    rep.count("other_plane_fills_checked", 1);
                }
                if let Some((class, detail)) = check_other_plane(spec, &chip.planes[other], &[(&want1, e.enc), (&buf, Enc::Id)]) {
                    rep.fail(mk(class, vec![], detail));
                }
            }
        }
    }
    for kind in ["write-outside-ram", "excess-data", "counter-outside-window"] {
        let n = chip.anomalies.iter().filter(|a| a.kind == kind && a.opidx == chip.opidx).count();
        if n > 0 {
            rep.fail(mk("write-outside-panel", vec![kind.into()], format!("controller model recorded {} x {} during the call", n, kind)));
        }
    }
    rep.nontrivial(hash_str(&format!("{}|{}|{}|{:?}", spec.name, e.k.name(), c.tag, c.pred)));
    rep.state(hash_bytes(&chip.planes[e.plane].data) ^ hash_str(spec.name));
    if rep.samples.len() < 6 {
        rep.sample(case.clone().set("wire_payload_len", last.len()).set("refreshes", chip.refreshes.len()));
    }
}

fn refresh_count_in_last_op(chip: &Ctrl) -> usize {
    chip.refreshes.iter().filter(|r| r.opidx == chip.opidx).count()
}

/// clauses 4 and 5
fn check_display(spec: &'static Spec, variant: &str, rep: &mut Report) {
    let Some(e) = spec.full_entry(K::UpdateFrame) else { return };
    let img = frame_img(spec, K::UpdateFrame, 101);
    // (4) display_frame after an update: one refresh, no RAM data
    {
        rep.eval(spec.name);
        let mut rig = Rig::simple(spec);
        let ops = vec![Op::img(K::UpdateFrame, img.clone()), Op::new(K::Display)];
        let o1 = rig.apply(&ops[0]);
        rig.board.borrow_mut().chip_mut().mark();
        let o2 = rig.apply(&ops[1]);
        let case = case_json(spec, variant, &ops);
        if !o1.is_ok() || !o2.is_ok() {
            rep.fail(Failure { panel: spec.name.into(), entry: "display_frame".into(), class: "panic".into(), tags: vec![], detail: format!("{} / {}", o1.short(), o2.short()), case });
        } else {
            let b = rig.board.borrow();
            let chip = b.chip();
            let n = refresh_count_in_last_op(chip);
            rep.count("refresh_triggers_observed", n as u64);
            if n != 1 {
                rep.fail(Failure { panel: spec.name.into(), entry: "display_frame".into(), class: "refresh-count≠1".into(), tags: vec![format!("n={}", n)], detail: format!("display_frame sent {} refresh triggers", n), case: case.clone() });
            }
            let w = chip.planes[0].writes + chip.planes[1].writes + chip.planes[0].pattern_fills as u64 + chip.planes[1].pattern_fills as u64;
            if w != 0 {
                rep.fail(Failure { panel: spec.name.into(), entry: "display_frame".into(), class: "image-data-in-display".into(), tags: vec![], detail: format!("display_frame wrote {} bytes of image memory", w), case });
            }
            rep.nontrivial(hash_str(&format!("{}|display", spec.name)));
        }
    }
    // (5) update_and_display_frame(b) == update_frame(b); display_frame()
    {
        rep.eval(spec.name);
        let mut a = Rig::simple(spec);
        let mut c = Rig::simple(spec);
        let oa1 = a.apply(&Op::img(K::UpdateFrame, img.clone()));
        let oa2 = a.apply(&Op::new(K::Display));
        let oc = c.apply(&Op::img(K::UpdateAndDisplay, img.clone()));
        let ops = vec![Op::img(K::UpdateAndDisplay, img.clone())];
        let case = case_json(spec, variant, &ops);
        if !oa1.is_ok() || !oa2.is_ok() || !oc.is_ok() {
            rep.fail(Failure { panel: spec.name.into(), entry: "update_and_display_frame".into(), class: "panic".into(), tags: vec![], detail: format!("{} / {} / {}", oa1.short(), oa2.short(), oc.short()), case });
            return;
        }
        let ba = a.board.borrow();
        let bc = c.board.borrow();
        let (ca, cc) = (ba.chip(), bc.chip());
        if ca.planes[e.plane].data != cc.planes[e.plane].data {
            rep.fail(Failure { panel: spec.name.into(), entry: "update_and_display_frame".into(), class: "combined≠sequence".into(), tags: vec!["plane".into()], detail: "primary plane differs between the combined call and the two-call sequence".into(), case: case.clone() });
        }
        if ca.refreshes.len() != cc.refreshes.len() || cc.refreshes.len() != 1 {
            rep.fail(Failure {
                panel: spec.name.into(),
                entry: "update_and_display_frame".into(),
                class: "combined≠sequence".into(),
                tags: vec!["refresh-count".into()],
                detail: format!("combined call: {} refreshes, sequence: {}", cc.refreshes.len(), ca.refreshes.len()),
                case,
            });
        }
        rep.count("refresh_triggers_observed", (ca.refreshes.len() + cc.refreshes.len()) as u64);
        rep.nontrivial(hash_str(&format!("{}|combined", spec.name)));
    }
}

/// clause 4 on a panel that is really busy and ignores commands while busy: a display call made right
/// behind another refreshing call must still trigger exactly one refresh (a call that returns while the
/// panel is busy loses the first commands of the next one). Judged against the same calls on an idle panel.
fn check_display_busy(spec: &'static Spec, variant: &str, rep: &mut Report) {
    let firsts: Vec<Vec<Op>> = vec![
        vec![frame_op(spec, K::UpdateFrame, 0xD1), Op::new(K::Display)],
        vec![frame_op(spec, K::UpdateAndDisplay, 0xD2)],
        vec![Op::new(K::Clear), Op::new(K::Display)],
        vec![Op::new(K::Display)],
    ];
    for first in &firsts {
        let count = |busy: bool| -> Option<(usize, u64)> {
            let mut rig = if busy {
                let r = Rig::new(
                    spec,
                    |b| {
                        b.busy_mode = crate::hal::BusyMode::Physical;
                        b.chips[0].busy.default_d = 3;
                    },
                    None,
                    false,
                )
                .ok()?;
                r.board.borrow_mut().chips[0].drop_while_busy = true;
                r
            } else {
                Rig::simple(spec)
            };
            for o in first {
                if !rig.apply(o).is_ok() {
                    return None;
                }
            }
            let n0 = rig.board.borrow().chip().refreshes.len();
            if !rig.apply(&Op::new(K::Display)).is_ok() {
                return None;
            }
            let b = rig.board.borrow();
            // a trigger that reaches an unpowered controller (its power-on command was ignored) refreshes nothing
            let effective = b.chip().refreshes[n0..].iter().filter(|r| !spec.needs_pon || r.power == crate::model::Power::On).count();
            Some((effective, b.chip().dropped_while_busy))
        };
        rep.eval(spec.name);
        let (Some(idle), Some(busy)) = (count(false), count(true)) else {
            continue;
        };
        rep.count("display_calls_on_busy_panel", 1);
        rep.nontrivial(hash_str(&format!("dispbusy|{}|{}", spec.name, ops_short(first))));
        if idle.0 == 1 && busy.0 != 1 {
            let mut ops = first.clone();
            ops.push(Op::new(K::Display));
            rep.fail(Failure {
                panel: spec.name.into(),
                entry: "display_frame".into(),
                class: "refresh-count".into(),
                tags: vec![format!("after:{}", first.last().map(|o| o.k.name()).unwrap_or("new")), "panel-busy".into()],
                detail: format!("display_frame right behind {} triggered {} refreshes on a panel that is busy for three polls after each busy-raising command and ignores commands while busy ({} commands ignored); 1 on an always-idle panel", ops_short(first), busy.0, busy.1),
                case: case_json(spec, variant, &ops),
            });
        }
    }
}

/// clauses 4 and 5 for the other display-type calls and contexts: display after every full-frame
/// entry point and after settings changes, display_new_frame, combined new-frame call
/// "any other plane the call writes receives a complete uniform fill ... never a partial one" also when
/// the caller's slice has another length than the frame (the drivers stream whatever they are given): a fill
/// is sized by the panel, not by the caller's slice. Reference: the same call with a full-size buffer.
fn check_fill_other_length(spec: &'static Spec, variant: &str, rep: &mut Report) {
    if spec.family == Family::Acep {
        return;
    }
    for e in spec.full {
        if e.plane2.is_some() {
            continue;
        }
        let full = spec.entry_buf_len(e);
        let row = ((spec.w + 7) / 8) as usize;
        let other = 1 - e.plane;
        let fills_of = |len: usize| -> Option<Vec<Vec<u8>>> {
            let mut rig = Rig::simple(spec);
            for p in prefix_for(spec, e) {
                if !rig.apply(&p).is_ok() {
                    return None;
                }
            }
            rig.board.borrow_mut().chip_mut().mark();
            if !rig.apply(&Op::img(e.k, Img::Coded { salt: 0xC01 + len as u32, len })).is_ok() {
                return None;
            }
            let b = rig.board.borrow();
            let segs = op_segments(&b.log);
            let (_, s, en) = *segs.last().unwrap();
            Some(payloads(&b.log[s..en], &b.bytes, ram_opcode(spec, other)))
        };
        let Some(reference) = fills_of(full) else { continue };
        // only where the call fills the other plane with one repeated value
        let uniform = |p: &Vec<u8>| !p.is_empty() && p.iter().all(|x| *x == p[0]);
        if reference.is_empty() || !reference.iter().all(uniform) {
            continue;
        }
        for len in [full / 2 / row.max(1) * row.max(1), full.saturating_sub(row), row, full + row] {
            if len == 0 || len == full {
                continue;
            }
            rep.eval(spec.name);
            let Some(got) = fills_of(len) else {
                rep.count("other_lengths_rejected_by_driver", 1);
                continue;
            };
            rep.count("other_plane_fills_checked_other_length", 1);
            rep.nontrivial(hash_str(&format!("{}|filllen|{}|{}", spec.name, e.k.name(), len)));
            let want: Vec<usize> = reference.iter().map(|p| p.len()).collect();
            let have: Vec<usize> = got.iter().map(|p| p.len()).collect();
            if want != have || !got.iter().all(uniform) {
                let op = Op::img(e.k, Img::Coded { salt: 0xC01 + len as u32, len });
                let mut ops = prefix_for(spec, e);
                ops.push(op);
                rep.fail(Failure {
                    panel: spec.name.into(),
                    entry: e.k.name().into(),
                    class: "other-plane-partial".into(),
                    tags: vec!["other-length".into()],
                    detail: format!("with a buffer of {} bytes (the frame is {}) the fill of plane {} is sent as {:?} bytes, with a full-size buffer as {:?}", len, full, other, have, want),
                    case: case_json(spec, variant, &ops).set("buffer_len", len),
                });
            }
        }
    }
}

fn check_display_more(spec: &'static Spec, variant: &str, rep: &mut Report) {
    // (4) in contexts: [settings?; full entry (+ protocol prefix); display]
    let mut settings: Vec<Option<Op>> = vec![None, Some(Op::arg(K::SetBg, 0))];
    if spec.has(K::SetLut) {
        settings.push(Some(Op::arg(K::SetLut, 2)));
    }
    if spec.has(K::SetRefresh) {
        settings.push(Some(Op::arg(K::SetRefresh, 2)));
    }
    for st in &settings {
        for fe in spec.full {
            // which display call completes this entry point
            let disp: Vec<K> = match fe.k {
                K::UpdateAndDisplay | K::UpdateAndDisplayNew | K::UpdateAndDisplayBase => vec![],
                K::UpdateNew if spec.has(K::DisplayNew) => vec![K::DisplayNew, K::Display],
                K::UpdateOld | K::Achromatic => vec![],
                _ => vec![K::Display],
            };
            for dk in disp {
                rep.eval(spec.name);
                let mut rig = Rig::simple(spec);
                let mut ops: Vec<Op> = Vec::new();
                if let Some(s) = st {
                    ops.push(s.clone());
                }
                if let Some(a) = fe.after {
                    ops.push(frame_op(spec, a, 55));
                }
                ops.push(frame_op(spec, fe.k, 56));
                let mut ok = true;
                for o in &ops {
                    if !rig.apply(o).is_ok() {
                        ok = false;
                    }
                }
                if !ok {
                    rep.count("contexts_with_failing_predecessor", 1);
                    continue;
                }
                rig.board.borrow_mut().chip_mut().mark();
                let o = rig.apply(&Op::new(dk));
                ops.push(Op::new(dk));
                let case = case_json(spec, variant, &ops);
                rep.nontrivial(hash_str(&format!("{}|disp-more|{}", spec.name, ops_short(&ops))));
                if !o.is_ok() {
                    rep.fail(Failure { panel: spec.name.into(), entry: dk.name().into(), class: "panic".into(), tags: vec![], detail: o.short(), case });
                    continue;
                }
                let b = rig.board.borrow();
                let chip = b.chip();
                let n = refresh_count_in_last_op(chip);
                rep.count("refresh_triggers_observed", n as u64);
                let ctx_tag = format!("after:{}", ops[..ops.len() - 1].iter().map(|o| sym_tag(o)).collect::<Vec<_>>().join("+"));
                if n != 1 {
                    rep.fail(Failure { panel: spec.name.into(), entry: dk.name().into(), class: "refresh-count≠1".into(), tags: vec![format!("n={}", n), ctx_tag.clone()], detail: format!("{} sent {} refresh triggers (history: {})", dk.name(), n, ops_short(&ops)), case: case.clone() });
                }
                let w = chip.planes[0].writes + chip.planes[1].writes + chip.planes[0].pattern_fills as u64 + chip.planes[1].pattern_fills as u64;
                if w != 0 {
                    rep.fail(Failure { panel: spec.name.into(), entry: dk.name().into(), class: "image-data-in-display".into(), tags: vec![ctx_tag], detail: format!("{} wrote {} bytes of image memory (history: {})", dk.name(), w, ops_short(&ops)), case });
                }
            }
        }
    }
    // (5) for the quick-refresh combined call: update_and_display_new_frame == update_new_frame; display_new_frame
    if spec.has(K::UpdateAndDisplayNew) && spec.has(K::DisplayNew) {
        rep.eval(spec.name);
        let e = spec.full_entry(K::UpdateNew).unwrap();
        let mut a = Rig::simple(spec);
        let mut c = Rig::simple(spec);
        let old = frame_op(spec, K::UpdateOld, 61);
        let img = frame_img(spec, K::UpdateNew, 62);
        let r: Vec<Outcome> = vec![a.apply(&old), a.apply(&Op::img(K::UpdateNew, img.clone())), a.apply(&Op::new(K::DisplayNew)), c.apply(&old), c.apply(&Op::img(K::UpdateAndDisplayNew, img.clone()))];
        let ops = vec![old.clone(), Op::img(K::UpdateAndDisplayNew, img.clone())];
        let case = case_json(spec, variant, &ops);
        rep.nontrivial(hash_str(&format!("{}|combined-new", spec.name)));
        if r.iter().any(|o| !o.is_ok()) {
            rep.fail(Failure { panel: spec.name.into(), entry: "update_and_display_new_frame".into(), class: "panic".into(), tags: vec![], detail: format!("{:?}", r.iter().map(|o| o.short()).collect::<Vec<_>>()), case });
        } else {
            let (ba, bc) = (a.board.borrow(), c.board.borrow());
            if ba.chip().planes[e.plane].data != bc.chip().planes[e.plane].data {
                rep.fail(Failure { panel: spec.name.into(), entry: "update_and_display_new_frame".into(), class: "combined≠sequence".into(), tags: vec!["plane".into()], detail: "primary plane differs between the combined new-frame call and the two-call sequence".into(), case: case.clone() });
            }
            if ba.chip().refreshes.len() != bc.chip().refreshes.len() || bc.chip().refreshes.len() != 1 {
                rep.fail(Failure { panel: spec.name.into(), entry: "update_and_display_new_frame".into(), class: "combined≠sequence".into(), tags: vec!["refresh-count".into()], detail: format!("combined call: {} refreshes, sequence: {}", bc.chip().refreshes.len(), ba.chip().refreshes.len()), case });
            }
        }
    }
    // (5) in settings contexts for the plain combined call
    for st in settings.iter().flatten() {
        let Some(e) = spec.full_entry(K::UpdateFrame) else { continue };
        rep.eval(spec.name);
        let img = frame_img(spec, K::UpdateFrame, 63);
        let mut a = Rig::simple(spec);
        let mut c = Rig::simple(spec);
        let r = vec![a.apply(st), a.apply(&Op::img(K::UpdateFrame, img.clone())), a.apply(&Op::new(K::Display)), c.apply(st), c.apply(&Op::img(K::UpdateAndDisplay, img.clone()))];
        let ops = vec![st.clone(), Op::img(K::UpdateAndDisplay, img.clone())];
        let case = case_json(spec, variant, &ops);
        rep.nontrivial(hash_str(&format!("{}|combined-ctx|{}", spec.name, st.short())));
        if r.iter().any(|o| !o.is_ok()) {
            rep.count("contexts_with_failing_predecessor", 1);
            continue;
        }
        let (ba, bc) = (a.board.borrow(), c.board.borrow());
        if ba.chip().planes[e.plane].data != bc.chip().planes[e.plane].data {
            rep.fail(Failure { panel: spec.name.into(), entry: "update_and_display_frame".into(), class: "combined≠sequence".into(), tags: vec!["plane".into(), format!("after:{}", sym_tag(st))], detail: "primary plane differs between the combined call and the two-call sequence".into(), case: case.clone() });
        }
        if ba.chip().refreshes.len() != bc.chip().refreshes.len() {
            rep.fail(Failure { panel: spec.name.into(), entry: "update_and_display_frame".into(), class: "combined≠sequence".into(), tags: vec!["refresh-count".into(), format!("after:{}", sym_tag(st))], detail: format!("combined call: {} refreshes, sequence: {}", bc.chip().refreshes.len(), ba.chip().refreshes.len()), case });
        }
    }
}

/// physical pixel of logical (x,y) under rotation r — closed form, independent of graphics.rs
fn rot(spec: &Spec, r: u32, x: u32, y: u32) -> (u32, u32) {
    match r & 3 {
        0 => (x, y),
        1 => (spec.w - 1 - y, x),
        2 => (spec.w - 1 - x, spec.h - 1 - y),
        _ => (y, spec.h - 1 - x),
    }
}

/// value of one pixel in an encoded plane (enc of the *primary* plane; bits per pixel = alias_bpp * factor)
fn plane_pixel(spec: &Spec, pl: &Plane, enc: Enc, px: u32, py: u32) -> u32 {
    let bpp = spec.alias_bpp as usize * enc_factor(enc);
    let ry = (spec.row_map)(py) as usize;
    let bit = px as usize * bpp;
    let byte = pl.data[ry * pl.row_bytes as usize + bit / 8];
    let shift = 8 - bpp - (bit % 8);
    ((byte >> shift) as u32) & ((1u32 << bpp) - 1)
}

/// expected stored value of a pixel of colour index `c` in the primary (bw / only) plane
fn pixel_code(spec: &Spec, enc: Enc, c: u32) -> u32 {
    let base: u32 = match spec.alias_color {
        ColorKind::Bw => c & 1, // white = 1
        ColorKind::Tri => match c {
            0 => 0,
            1 => 1,
            _ => {
                if spec.bwrbit {
                    0
                } else {
                    1
                }
            }
        },
        ColorKind::Oct => c & 7,
    };
    match enc {
        Enc::Id => base,
        Enc::Inv => (!base) & 1,
        Enc::X2 => {
            if base == 1 {
                0b11
            } else {
                0
            }
        }
        Enc::X4 => {
            if base == 1 {
                0b0011
            } else {
                0
            }
        }
    }
}

struct PixCase {
    spec: &'static Spec,
    r: u32,
    group: u32,
    ngroups: u32,
    fg: u32,
    bg: u32,
    lattice: bool,
    /// overdraw: a first layer in this colour is drawn on a superset of the final pixels, then the
    /// final colour on top (last colour wins)
    mid: Option<u32>,
    /// after the layers, the part of the first layer that is not final is drawn back to `bg`
    erase: bool,
}

/// clause 6: end-to-end pixel placement through the panel's own Display alias
fn check_pixels(c: &PixCase, variant: &str, rep: &mut Report) {
    let spec = c.spec;
    let e = spec.full_entry(K::UpdateFrame).unwrap();
    rep.eval(spec.name);
    let mut d = (spec.display)();
    d.set_rotation(c.r);
    d.fill(c.bg);
    let (lw, lh) = d.size();
    let mut drawn: Vec<(u32, u32)> = Vec::new();
    // layer of every logical pixel: 0 background, 1 first (overdrawn) layer, 2 final colour
    let mut layer: Vec<u8> = vec![0; (lw * lh) as usize];
    let pick = |x: u32, y: u32| -> bool {
        let on_border = x == 0 || y == 0 || x == lw - 1 || y == lh - 1;
        if c.lattice {
            (on_border && (mix64(((x as u64) << 20) ^ y as u64) % 3 == c.group as u64 % 3)) || ((x % 7 == c.group % 7) && (y % 7 == (c.group / 7) % 7))
        } else {
            mix64(((x as u64) << 24) ^ ((y as u64) << 4) ^ 0x77) % c.ngroups as u64 == c.group as u64
        }
    };
    let extra = |x: u32, y: u32| -> bool { (x * 3 + y * 5 + c.group) % 4 == 0 };
    if let Some(m) = c.mid {
        for y in 0..lh {
            for x in 0..lw {
                if pick(x, y) || extra(x, y) {
                    d.set_pixel(x as i32, y as i32, m);
                    layer[(y * lw + x) as usize] = 1;
                }
            }
        }
    }
    for y in 0..lh {
        for x in 0..lw {
            if pick(x, y) {
                d.set_pixel(x as i32, y as i32, c.fg);
                layer[(y * lw + x) as usize] = 2;
                drawn.push((x, y));
            }
        }
    }
    if c.erase {
        for y in 0..lh {
            for x in 0..lw {
                if layer[(y * lw + x) as usize] == 1 {
                    d.set_pixel(x as i32, y as i32, c.bg);
                    layer[(y * lw + x) as usize] = 0;
                }
            }
        }
    }
    let buf: Vec<u8> = match e.buf {
        BufSel::Whole => d.buffer().to_vec(),
        BufSel::Bw => d.bw().to_vec(),
        BufSel::Chr => d.chr().to_vec(),
    };
    let op = Op::img(K::UpdateFrame, Img::Bytes(Arc::new(buf)));
    let mut rig = Rig::simple(spec);
    let o = rig.apply(&op);
    let case = J::obj()
        .set("panel", spec.name)
        .set("variant", variant)
        .set("rotation", c.r * 90)
        .set("fg", c.fg)
        .set("bg", c.bg)
        .set("group", c.group)
        .set("of", c.ngroups)
        .set("lattice", c.lattice)
        .set("overdrawn_first_layer", c.mid.map(|m| m as i64))
        .set("first_layer_erased", c.erase)
        .set("pixels_drawn", drawn.len());
    if !o.is_ok() {
        rep.fail(Failure { panel: spec.name.into(), entry: "update_frame".into(), class: "panic".into(), tags: vec!["pixel-path".into()], detail: o.short(), case });
        return;
    }
    let b = rig.board.borrow();
    let pl = &b.chip().planes[e.plane];
    // expected: every physical pixel holds bg's code except the rotated images of the drawn points
    let mut is_fg = vec![0u8; (spec.w * spec.h) as usize];
    for y in 0..lh {
        for x in 0..lw {
            let l = layer[(y * lw + x) as usize];
            if l != 0 {
                let (px, py) = rot(spec, c.r, x, y);
                is_fg[(py * spec.w + px) as usize] = l;
            }
        }
    }
    let fgc = pixel_code(spec, e.enc, c.fg);
    let bgc = pixel_code(spec, e.enc, c.bg);
    let midc = pixel_code(spec, e.enc, c.mid.unwrap_or(c.bg));
    let over_tag: Vec<String> = if c.mid.is_some() { vec!["overdraw".into()] } else { vec![] };
    let mut bad = 0u32;
    let mut first: Option<String> = None;
    for py in 0..spec.h {
        for px in 0..spec.w {
            let got = plane_pixel(spec, pl, e.enc, px, py);
            let want = match is_fg[(py * spec.w + px) as usize] {
                2 => fgc,
                1 => midc,
                _ => bgc,
            };
            if got != want {
                bad += 1;
                if first.is_none() {
                    first = Some(format!("physical pixel ({},{}) holds code {:b}, expected {:b}", px, py, got, want));
                }
            }
        }
    }
    rep.count("pixels_drawn", drawn.len() as u64);
    rep.count("pixels_verified", (spec.w * spec.h) as u64);
    if fgc != bgc && !drawn.is_empty() {
        rep.nontrivial(hash_str(&format!("pix|{}|{}|{}|{}|{}|{}|{:?}|{}", spec.name, c.r, c.group, c.fg, c.bg, c.lattice, c.mid, c.erase)));
        if c.mid.is_some() {
            rep.count("pixels_overdrawn", layer.iter().filter(|l| **l != 0).count() as u64);
        }
    }
    if bad > 0 {
        rep.fail(Failure {
            panel: spec.name.into(),
            entry: "Display+update_frame".into(),
            class: "pixel-misplaced".into(),
            tags: [vec![format!("rot{}", c.r * 90)], over_tag.clone()].concat(),
            detail: format!("{} pixels wrong after drawing {} pixels{}; first: {}", bad, drawn.len(), if c.mid.is_some() { " over an earlier layer (last colour must win)" } else { "" }, first.unwrap()),
            case: case.clone(),
        });
    } else if rep.samples.len() < 10 {
        rep.sample(case.clone());
    }
    // tri-colour aliases: the chromatic plane end to end (update_color_frame, or the two-plane update_frame)
    if spec.alias_color == ColorKind::Tri {
        let two = spec.full.iter().find(|f| f.plane2.is_some() && (f.k == K::UpdateColor || f.buf == BufSel::Whole));
        if let Some(fe2) = two {
            let (p2, enc2) = fe2.plane2.unwrap();
            let op2 = if fe2.buf == BufSel::Whole { Op::img(fe2.k, Img::Bytes(Arc::new(d.buffer().to_vec()))) } else { Op::img2(fe2.k, Img::Bytes(Arc::new(d.bw().to_vec())), Img::Bytes(Arc::new(d.chr().to_vec()))) };
            let mut rig2 = Rig::simple(spec);
            let o2 = rig2.apply(&op2);
            if !o2.is_ok() {
                rep.fail(Failure { panel: spec.name.into(), entry: fe2.k.name().into(), class: "panic".into(), tags: vec!["pixel-path".into()], detail: o2.short(), case: case.clone() });
                return;
            }
            let b2 = rig2.board.borrow();
            let plc = &b2.chip().planes[p2];
            // chromatic plane: bit set exactly for Chromatic pixels (inverted encodings flip it)
            let code = |col: u32| -> u32 {
                let base = (col == 2) as u32;
                if enc2 == Enc::Inv {
                    1 - base
                } else {
                    base
                }
            };
            let (fgc2, bgc2, midc2) = (code(c.fg), code(c.bg), code(c.mid.unwrap_or(c.bg)));
            let mut bad2 = 0u32;
            let mut first2: Option<String> = None;
            for py in 0..spec.h {
                for px in 0..spec.w {
                    let got = plane_pixel(spec, plc, Enc::Id, px, py);
                    let want = match is_fg[(py * spec.w + px) as usize] {
                        2 => fgc2,
                        1 => midc2,
                        _ => bgc2,
                    };
                    if got != want {
                        bad2 += 1;
                        if first2.is_none() {
                            first2 = Some(format!("physical pixel ({},{}) of the chromatic plane holds {:b}, expected {:b}", px, py, got, want));
                        }
                    }
                }
            }
            rep.count("pixels_verified", (spec.w * spec.h) as u64);
            if bad2 > 0 {
                rep.fail(Failure {
                    panel: spec.name.into(),
                    entry: format!("Display+{}", fe2.k.name()),
                    class: "pixel-misplaced".into(),
                    tags: [vec![format!("rot{}", c.r * 90), "chromatic-plane".into()], over_tag.clone()].concat(),
                    detail: format!("{} pixels wrong in the chromatic plane after drawing {} pixels{}; first: {}", bad2, drawn.len(), if c.mid.is_some() { " over an earlier layer (last colour must win)" } else { "" }, first2.unwrap()),
                    case,
                });
            }
        }
    }
}

pub fn run(ctx: &Ctx) -> Report {
    let mut cases: Vec<Case> = Vec::new();
    let mut rng = Rng::derive(ctx.seed, 0xC01);
    for spec in panels_for(ctx) {
        for e in spec.full {
            let len = spec.entry_buf_len(e);
            let len2 = if e.plane2.is_some() && e.buf != BufSel::Whole { spec.plane_bytes() } else { 0 };
            let mut imgs: Vec<(Img, String)> = Vec::new();
            let vs: Vec<u32> = if ctx.tier_thorough { (0..256).collect() } else { vec![0, 1, 37, 85, 128, 170, 200, 255] };
            for v in vs {
                imgs.push((Img::Sweep { v: v as u8, len }, format!("sweep{}", v)));
            }
            for b in [0x00u8, 0xFF, 0x55, 0xAA] {
                imgs.push((Img::Const { b, len }, format!("const{:02X}", b)));
            }
            let ncoded = if ctx.tier_thorough { 8 } else { 2 };
            for i in 0..ncoded {
                let salt = rng.next() as u32;
                imgs.push((Img::Coded { salt, len }, format!("coded{}:{}", i, salt)));
            }
            for (img, tag) in imgs {
                let img2 = if len2 > 0 { Img::Coded { salt: 0xBEEF ^ hash_str(&tag) as u32, len: len2 } } else { Img::None };
                cases.push(Case { spec, entry: *e, img, img2, tag, pred: vec![], busy: false });
            }
            // contexts: the same entry point after every symbol of the alphabet (one coded image; more in thorough)
            let syms = syms_shapes(spec);
            let nimg = if ctx.tier_thorough { 3 } else { 1 };
            for pi in 0..syms.len() {
                if spec.name == "epd2in13_v2" && e.k == K::SetPartialBase && syms[pi].iter().any(|o| o.k == K::SetRefresh) {
                    continue;
                }
                for j in 0..nimg {
                    let salt = 0x5EED + j as u32 * 977 + pi as u32;
                    let img = Img::Coded { salt, len };
                    let img2 = if len2 > 0 { Img::Coded { salt: salt ^ 0xBEEF, len: len2 } } else { Img::None };
                    cases.push(Case { spec, entry: *e, img, img2, tag: format!("ctx{}:{}", pi, j), pred: vec![pi], busy: false });
                    if j == 0 {
                        let img = Img::Coded { salt: salt ^ 0xB5, len };
                        let img2 = if len2 > 0 { Img::Coded { salt: salt ^ 0xBEEF ^ 0xB5, len: len2 } } else { Img::None };
                        cases.push(Case { spec, entry: *e, img, img2, tag: format!("busyctx{}", pi), pred: vec![pi], busy: true });
                    }
                }
            }
            // busy contexts, systematically: [any symbol; a symbol that starts a refresh] on a panel that is
            // really busy afterwards and ignores commands while busy, then the entry point under test
            let refreshers: Vec<usize> = (0..syms.len()).filter(|i| syms[*i].iter().any(|o| matches!(o.k, K::Display | K::UpdateAndDisplay | K::DisplayNew | K::UpdateAndDisplayNew | K::DisplayPartial))).collect();
            for pi in 0..syms.len() {
                for (qn, qi) in refreshers.iter().enumerate() {
                    if spec.w * spec.h > 300 * 400 && !ctx.tier_thorough && (pi + qn) % 3 != 0 {
                        continue;
                    }
                    let mut g = Grammar::default();
                    if !g.allows(spec, &syms[pi]) {
                        continue;
                    }
                    g.step(spec, &syms[pi]);
                    if !g.allows(spec, &syms[*qi]) {
                        continue;
                    }
                    if spec.name == "epd2in13_v2" && e.k == K::SetPartialBase && [pi, *qi].iter().any(|i| syms[*i].iter().any(|o| o.k == K::SetRefresh)) {
                        continue;
                    }
                    let salt = 0xB05E + (pi * 17 + qi) as u32;
                    let img = Img::Coded { salt, len };
                    let img2 = if len2 > 0 { Img::Coded { salt: salt ^ 0xBEEF, len: len2 } } else { Img::None };
                    cases.push(Case { spec, entry: *e, img, img2, tag: format!("busypair{}:{}", pi, qi), pred: vec![pi, *qi], busy: true });
                }
            }
            // longer contexts: seeded random walks over the alphabet (2..=4 symbols; more and longer in thorough)
            let big = spec.w * spec.h > 300 * 400;
            let nwalk = match (ctx.tier_thorough, big) {
                (false, true) => 12,
                (false, false) => 60,
                (true, true) => 150,
                (true, false) => 1500,
            };
            for j in 0..nwalk {
                let n = if ctx.tier_thorough { 2 + j % 6 } else { 2 + j % 3 };
                let h = random_history(spec, &syms, n, &mut rng);
                if spec.name == "epd2in13_v2" && e.k == K::SetPartialBase && h.iter().any(|i| syms[*i].iter().any(|o| o.k == K::SetRefresh)) {
                    continue;
                }
                let salt = 0xA11CE + j as u32 * 31;
                let img = Img::Coded { salt, len };
                let img2 = if len2 > 0 { Img::Coded { salt: salt ^ 0xBEEF, len: len2 } } else { Img::None };
                cases.push(Case { spec, entry: *e, img, img2, tag: format!("walk{}", j), pred: h.clone(), busy: false });
                if j % 3 == 0 {
                    let img = Img::Coded { salt: salt ^ 0xB5, len };
                    let img2 = if len2 > 0 { Img::Coded { salt: salt ^ 0xBEEF ^ 0xB5, len: len2 } } else { Img::None };
                    cases.push(Case { spec, entry: *e, img, img2, tag: format!("busywalk{}", j), pred: h, busy: true });
                }
            }
        }
    }
    let variant = ctx.variant.clone();
    let mut rep = par_run(&cases, ctx.threads, |_, c, rep| check_frame(c, &variant, rep));
    for spec in panels_for(ctx) {
        check_display(spec, &ctx.variant, &mut rep);
        check_display_more(spec, &ctx.variant, &mut rep);
        check_fill_other_length(spec, &ctx.variant, &mut rep);
        check_display_busy(spec, &ctx.variant, &mut rep);
    }
    // pixel path
    let mut pcs: Vec<PixCase> = Vec::new();
    for spec in panels_for(ctx) {
        let ncol = spec.alias_color.count();
        let small = spec.w <= 200 && spec.h <= 200;
        for r in 0..4 {
            // colour pairs: every colour as foreground over one differing background
            for fg in 0..ncol {
                let e0 = spec.full_entry(K::UpdateFrame).unwrap();
                let fgc = pixel_code(spec, e0.enc, fg);
                let bg = (0..ncol).find(|b| pixel_code(spec, e0.enc, *b) != fgc).unwrap_or(if fg == 1 { 0 } else { 1 });
                if ctx.tier_thorough || small {
                    let ng = if ctx.tier_thorough { 16 } else { 8 };
                    for g in 0..ng {
                        pcs.push(PixCase { spec, r, group: g, ngroups: ng, fg, bg, lattice: false, mid: None, erase: false });
                    }
                } else {
                    for g in 0..3 {
                        pcs.push(PixCase { spec, r, group: g + 7 * (g % 2), ngroups: 0, fg, bg, lattice: true, mid: None, erase: false });
                    }
                }
            }
            // overdraw: final colour on top of a first layer in another colour (every ordered pair
            // for tri-colour buffers, a rotating partner for 7-colour ones, draw-and-erase for b/w)
            for fg in 0..ncol {
                let mids: Vec<u32> = match ncol {
                    2 => vec![fg],
                    3 => (0..3).filter(|m| *m != fg).collect(),
                    _ => vec![(fg + 3) % ncol, (fg + 1) % ncol],
                };
                for (mi, mid) in mids.iter().enumerate() {
                    let bg = (0..ncol).find(|b| *b != fg && *b != *mid).unwrap_or((fg + 1) % ncol);
                    let erase = ncol == 2 || (r + fg + mi as u32) % 2 == 0;
                    let g = (r + fg * 3 + mi as u32) % 7;
                    if small {
                        pcs.push(PixCase { spec, r, group: g, ngroups: 8, fg, bg, lattice: false, mid: Some(*mid), erase });
                    } else {
                        pcs.push(PixCase { spec, r, group: g, ngroups: 0, fg, bg, lattice: true, mid: Some(*mid), erase });
                    }
                    if ctx.tier_thorough {
                        pcs.push(PixCase { spec, r, group: g + 1, ngroups: 8, fg, bg, lattice: !small, mid: Some(*mid), erase: !erase });
                    }
                }
            }
        }
    }
    let prep = par_run(&pcs, ctx.threads, |_, c, rep| check_pixels(c, &variant, rep));
    rep.merge(prep);
    if ctx.variant == "v3" && ctx.only_panel.as_deref().map(|p| p == "epd12in48b_v2").unwrap_or(true) {
        crate::props::p12checks::c01(&mut rep, ctx.tier_thorough);
        crate::props::p12checks::c01_busy(&mut rep, ctx.tier_thorough);
    }
    rep
}
