//! C02 — a full-frame update is independent of the call history that preceded it.
//! Differential monitor: [new; H; probe] vs [new; probe] on two simulated boards.
use crate::json::J;
use crate::model::{Ctrl, Family};
use crate::ops::*;
use crate::panels::*;
use crate::props::c01::{compare_plane, enc_factor};
use crate::props::common::*;
use crate::prng::{hash_bytes, hash_str, Rng};
use crate::report::{par_run, Failure, Report};
use crate::Ctx;

pub struct Fresh {
    pub data: Vec<u8>,
    pub wc: Vec<u16>,
    pub state: AddrState,
    /// resolution / gate-count registers after the probe
    pub geom: Vec<(u8, Option<Vec<u8>>)>,
}

/// the registers that define the controller's active area (UC / ACeP: TRES 0x61, SSD: driver output
/// control 0x01); the SSD RAM window and counters are part of the addressing state above
fn geom_regs(spec: &Spec, c: &Ctrl) -> Vec<(u8, Option<Vec<u8>>)> {
    let snap = c.reg_snapshot();
    let ops: &[u8] = if spec.family == Family::Ssd { &[0x01] } else { &[0x61] };
    ops.iter().map(|o| (*o, snap.get(o).cloned())).collect()
}

#[derive(Clone, Debug, PartialEq)]
pub struct AddrState {
    win: (u32, u32, u32, u32),
    ctr: (u32, u32),
    entry: u8,
    partial: bool,
    pwin: (u32, u32, u32, u32),
    asleep: bool,
}
fn addr_state(c: &Ctrl) -> AddrState {
    AddrState { win: (c.xs, c.xe, c.ys, c.ye), ctr: (c.xc, c.yc), entry: c.entry, partial: c.partial_mode, pwin: c.pwin, asleep: c.asleep }
}

/// dominant cause tag from the model state right before the probe, relative to a fresh driver
fn cause_tags(spec: &Spec, now: &AddrState, fresh: &AddrState) -> Vec<String> {
    let t = if now.asleep {
        "asleep"
    } else if spec.family != Family::Ssd && now.partial && !fresh.partial {
        "partial-mode-in"
    } else if spec.family == Family::Ssd && now.win != fresh.win {
        "window-differs"
    } else if spec.family == Family::Ssd && now.entry != fresh.entry {
        "entry-mode-changed"
    } else if spec.family == Family::Ssd && now.ctr != fresh.ctr {
        "counter-offset"
    } else {
        "addressing-state-equal"
    };
    vec![t.to_string()]
}

struct Case {
    spec: &'static Spec,
    h: Vec<usize>,
    probe: K,
    /// history and probe run on a panel that is busy for three polls after every busy-raising
    /// command and does not latch commands received while BUSY is asserted
    busy: bool,
    /// the last symbol of the history is cut short: its k-th SPI write fails and the call returns the error
    fault: Option<u64>,
    /// busy panel and a driver constructed with idle delay Some(0) (busy spinning): the wait loops take
    /// another path through the shared helpers
    spin: bool,
}

fn rig_for(spec: &'static Spec, busy: bool, spin: bool) -> Result<Rig, String> {
    if !busy {
        return Ok(Rig::simple(spec));
    }
    match Rig::new(
        spec,
        |b| {
            b.busy_mode = crate::hal::BusyMode::Physical;
            b.chips[0].busy.default_d = 3;
        },
        if spin { Some(0) } else { None },
        false,
    ) {
        Ok(r) => {
            r.board.borrow_mut().chips[0].drop_while_busy = true;
            Ok(r)
        }
        Err((o, _)) => Err(format!("new -> {}", o.short())),
    }
}

pub fn probe_op(spec: &Spec, k: K) -> Op {
    frame_op(spec, k, 0x999)
}

/// returns Some((class, tags, detail)) when the probe after history differs from the fresh probe
fn eval(spec: &'static Spec, syms: &[Sym], h: &[usize], probe: K, fresh: &Fresh, busy: bool, spin: bool, fault: Option<u64>, rep: Option<&mut Report>) -> Result<Option<(String, Vec<String>, String)>, String> {
    let nfull = if fault.is_some() { h.len().saturating_sub(1) } else { h.len() };
    let ops = flatten(syms, &h[..nfull]);
    let mut rig = rig_for(spec, busy, spin)?;
    for o in &ops {
        let out = rig.apply(o);
        if !out.is_ok() {
            return Err(format!("{} -> {}", o.short(), out.short()));
        }
    }
    if let Some(k) = fault {
        let Some(last) = h.last() else { return Err("no symbol to fault".into()) };
        if apply_symbol_with_fault(&mut rig, &syms[*last], k, 0xC02).is_none() {
            return Err("fault index beyond the symbol (or the call panicked)".into());
        }
    }
    let e = spec.full_entry(probe).unwrap();
    let before = addr_state(rig.board.borrow().chip());
    rig.board.borrow_mut().chip_mut().mark();
    let out = rig.apply(&probe_op(spec, probe));
    if !out.is_ok() {
        return Ok(Some(("probe-failed".into(), vec![], format!("probe returned {}", out.short()))));
    }
    let b = rig.board.borrow();
    let pl = &b.chip().planes[e.plane];
    if let Some(rep) = rep {
        rep.count("plane_bytes_compared", pl.data.len() as u64);
        rep.count("spi_transfers", b.spi_writes);
        rep.count("refresh_triggers", b.chip().refreshes.len() as u64);
        rep.state(hash_str(spec.name) ^ b.chip().state_hash());
    }
    // compare content and write counters inside the panel area, and counters everywhere
    let mut diff: Option<String> = None;
    for i in 0..pl.data.len() {
        if pl.wc[i] != fresh.wc[i] {
            diff = Some(format!("RAM byte {} (row {}, col {}) written {} times, {} on a fresh driver", i, i / pl.row_bytes as usize, i % pl.row_bytes as usize, pl.wc[i], fresh.wc[i]));
            break;
        }
        if fresh.wc[i] > 0 && pl.data[i] != fresh.data[i] {
            diff = Some(format!("RAM byte {} (row {}, col {}) holds {:02X}, {:02X} on a fresh driver", i, i / pl.row_bytes as usize, i % pl.row_bytes as usize, pl.data[i], fresh.data[i]));
            break;
        }
    }
    if diff.is_none() {
        // "shrunken / enlarged-window state": the register that defines the active area must hold what it
        // holds after the same update on a freshly constructed driver
        for ((op, now), (_, want)) in geom_regs(spec, b.chip()).iter().zip(fresh.geom.iter()) {
            if let (Some(n), Some(w)) = (now, want) {
                if n != w {
                    return Ok(Some(("active-area-register-differs".into(), vec![format!("reg={:02X}", op)], format!("register {:02X} holds [{}] at the end of the probe, [{}] on a fresh driver", op, hex(n), hex(w)))));
                }
            }
        }
    }
    match diff {
        None => Ok(None),
        Some(d) => {
            let tags = cause_tags(spec, &before, &fresh.state);
            Ok(Some(("probe-plane-differs".into(), tags, d)))
        }
    }
}

pub fn fresh_for(spec: &'static Spec, probe: K) -> Fresh {
    let mut rig = Rig::simple(spec);
    let e = spec.full_entry(probe).unwrap();
    let state = addr_state(rig.board.borrow().chip());
    rig.board.borrow_mut().chip_mut().mark();
    let o = rig.apply(&probe_op(spec, probe));
    assert!(o.is_ok(), "fresh probe failed on {}: {:?}", spec.name, o);
    let b = rig.board.borrow();
    let pl = &b.chip().planes[e.plane];
    Fresh { data: pl.data.clone(), wc: pl.wc.clone(), state, geom: geom_regs(spec, b.chip()) }
}

pub fn run(ctx: &Ctx) -> Report {
    let mut cases: Vec<Case> = Vec::new();
    let mut rng = Rng::derive(ctx.seed, 0xC02);
    for spec in panels_for(ctx) {
        let syms = syms_shapes(spec);
        // every full-frame entry point that may be called on its own (the chromatic plane update of the
        // three-colour trait is a public call of its own, although the alphabet only uses it after the
        // achromatic one)
        let probes: Vec<K> = spec.full.iter().filter(|e| e.after.is_none() || e.k == K::Chromatic).map(|e| e.k).collect();
        let maxlen = if ctx.tier_thorough { 3 } else { 2 };
        let small = spec.w * spec.h <= 200 * 200;
        let big = spec.w * spec.h > 300 * 400;
        for probe in &probes {
            for n in 1..=maxlen {
                if n == 3 && *probe != K::UpdateFrame {
                    continue;
                }
                for h in histories(spec, &syms, n) {
                    cases.push(Case { spec, h, probe: *probe, busy: false, fault: None, spin: false });
                }
            }
            // the same short histories on a panel that is really busy and drops commands while busy
            if *probe == K::UpdateFrame || ctx.tier_thorough {
                for n in 1..=2 {
                    for (j, h) in histories(spec, &syms, n).into_iter().enumerate() {
                        if big && !ctx.tier_thorough && n == 2 && j % 4 != 0 {
                            continue;
                        }
                        cases.push(Case { spec, h: h.clone(), probe: *probe, busy: true, fault: None, spin: false });
                        if n == 1 || ctx.tier_thorough {
                            cases.push(Case { spec, h, probe: *probe, busy: true, fault: None, spin: true });
                        }
                    }
                }
                for j in 0..(if big { 20 } else { 150 }) {
                    cases.push(Case { spec, h: random_history(spec, &syms, 3 + j % 3, &mut rng), probe: *probe, busy: true, fault: None, spin: false });
                }
            }
            // (Histories whose last call was cut short by an SPI error were tried and dropped: after an error the
            // only recovery the properties define is wake_up (C04); several unchanged drivers legitimately leave
            // partial mode / counters / windows behind when a call is aborted. `fault` stays None.)
            if !ctx.tier_thorough {
                // quick tier: longer histories are sampled (seeded), every full-frame entry point as probe
                let (n3, nlong) = if big { (60, 30) } else if small { (600, 300) } else { (250, 120) };
                let share = if *probe == K::UpdateFrame { 1 } else { 4 };
                for _ in 0..n3 / share {
                    cases.push(Case { spec, h: random_history(spec, &syms, 3, &mut rng), probe: *probe, busy: false, fault: None, spin: false });
                }
                for i in 0..nlong / share {
                    cases.push(Case { spec, h: random_history(spec, &syms, 4 + i % 3, &mut rng), probe: *probe, busy: false, fault: None, spin: false });
                }
            }
            if ctx.tier_thorough && *probe == K::UpdateFrame {
                // length 4: exhaustive on the small panels (<= 128 x 296 / 200 x 200), seeded elsewhere
                if small {
                    for h in histories(spec, &syms, 4) {
                        cases.push(Case { spec, h, probe: *probe, busy: false, fault: None, spin: false });
                    }
                } else {
                    let n4 = if big { 2000 } else { 20000 };
                    for _ in 0..n4 {
                        cases.push(Case { spec, h: random_history(spec, &syms, 4, &mut rng), probe: *probe, busy: false, fault: None, spin: false });
                    }
                }
                // long random walks (5..=10 symbols)
                let nl = if big { 500 } else { 5000 };
                for i in 0..nl {
                    cases.push(Case { spec, h: random_history(spec, &syms, 5 + i % 6, &mut rng), probe: *probe, busy: false, fault: None, spin: false });
                }
            }
        }
    }
    let variant = ctx.variant.clone();
    // fresh references per (panel, probe)
    let mut fresh: std::collections::HashMap<(usize, K), Fresh> = std::collections::HashMap::new();
    for c in &cases {
        let key = (c.spec as *const Spec as usize, c.probe);
        fresh.entry(key).or_insert_with(|| fresh_for(c.spec, c.probe));
    }
    let mut rep12 = Report::new();
    if ctx.variant == "v3" && ctx.only_panel.as_deref().map(|p| p == "epd12in48b_v2").unwrap_or(true) {
        crate::props::p12checks::c02(&mut rep12, ctx.tier_thorough);
    }
    let mut out = par_run(&cases, ctx.threads, |_, c, rep| {
        let spec = c.spec;
        let syms = syms_shapes(spec);
        let fr = &fresh[&(spec as *const Spec as usize, c.probe)];
        rep.eval(spec.name);
        let ops = flatten(&syms, &c.h);
        match eval(spec, &syms, &c.h, c.probe, fr, c.busy, c.spin, c.fault, Some(rep)) {
            Err(e) => {
                // an operation of the history itself failed: owned by another property
                rep.count("histories_with_failing_op", 1);
                rep.note(&format!("history op failed (not judged here): {} {}", spec.name, e));
            }
            Ok(None) => {
                rep.nontrivial(hash_str(&format!("{}|{}|{}", spec.name, c.probe.name(), ops_short(&ops))));
                if rep.samples.len() < 8 && c.h.len() >= 2 {
                    rep.sample(case_json(spec, &variant, &ops).set("probe", c.probe.name()).set("verdict", "same as fresh"));
                }
            }
            Ok(Some((class, tags, detail))) => {
                rep.nontrivial(hash_str(&format!("{}|{}|{}|{}", spec.name, c.probe.name(), ops_short(&ops), c.spin)));
                let sig0 = format!("{}|{}", class, tags.join(","));
                let min = minimize_history(&c.h, &sig0, &|t: &[usize]| match eval(spec, &syms, t, c.probe, fr, c.busy, c.spin, if c.fault.is_some() && t.last() != c.h.last() { None } else { c.fault }, None) {
                    Ok(Some((cl, tg, _))) => Some(format!("{}|{}", cl, tg.join(","))),
                    _ => None,
                });
                if c.busy {
                    // only what the same (minimal) history on an always-idle panel does not show
                    if let Ok(Some((cl, tg, _))) = eval(spec, &syms, &min, c.probe, fr, false, false, c.fault, None) {
                        if format!("{}|{}", cl, tg.join(",")) == sig0 {
                            return;
                        }
                    }
                }
                let mut tags = tags;
                tags.push(format!("hist:{}", sym_kinds(&syms, &min)));
                if c.busy {
                    tags.push("panel-busy".into());
                }
                if c.spin {
                    // only when the default idle delay does not show it
                    let with_delay = eval(spec, &syms, &min, c.probe, fr, true, false, c.fault, None).ok().flatten().map(|(cl, tg, _)| format!("{}|{}", cl, tg.join(",")) == sig0).unwrap_or(false);
                    if with_delay {
                        return;
                    }
                    tags.push("idle_delay=0".into());
                }
                if c.fault.is_some() {
                    // only what the same history without the fault does not show
                    if let Ok(Some((cl, tg, _))) = eval(spec, &syms, &c.h, c.probe, fr, c.busy, c.spin, None, None) {
                        if format!("{}|{}", cl, tg.join(",")) == sig0 {
                            return;
                        }
                    }
                    tags.push(format!("aborted:{}", c.h.last().map(|i| sym_kinds(&syms, &[*i])).unwrap_or_default()));
                }
                let min_ops = flatten(&syms, &min);
                rep.fail(Failure {
                    panel: spec.name.into(),
                    entry: c.probe.name().into(),
                    class,
                    tags,
                    detail: format!("{} | minimal history: {} | seen in: {}", detail, ops_short(&min_ops), ops_short(&ops)),
                    case: case_json(spec, &variant, &min_ops).set("probe", c.probe.name()),
                });
            }
        }
    });
    out.merge(rep12);
    out
}
