//! C03 — frame-buffer pixel addressing: rotation, bounds and bit layout.
//!
//! Technique: the REAL `set_pixel` / `draw_iter` of `Display` (every shipped alias) and `VarDisplay`
//! is executed call by call; an independently written reference frame-buffer model (closed-form
//! rotation, row padding, documented colour encodings) maintains a shadow buffer, and after EVERY
//! call the whole real buffer (for `VarDisplay`: the whole backing slice including a sentinel tail
//! beyond what `buffer()` exposes) is compared with the shadow. Panics are caught and reported.
//!
//! Nothing here reads graphics.rs' arithmetic: the only things taken from the library are the
//! public types, the module WIDTH/HEIGHT constants and the results of the calls under test.
use crate::json::J;
use crate::prng::{hash_str, mix64, Rng};
use crate::report::{par_run, Failure, Report};
use crate::Ctx;
use embedded_graphics_core::prelude::*;
use epd_waveshare::color::{Color, ColorType, OctColor, TriColor};
use epd_waveshare::graphics::{Display, DisplayRotation, VarDisplay};
use std::panic::{catch_unwind, AssertUnwindSafe};

// ------------------------------------------------------------------------------------------------
// reference model
// ------------------------------------------------------------------------------------------------

#[derive(Clone, Copy, PartialEq, Eq, Debug)]
pub enum Kind {
    Bw,
    Tri,
    Oct,
}

impl Kind {
    fn bpp(self) -> usize {
        match self {
            Kind::Oct => 4,
            _ => 1,
        }
    }
    fn planes(self) -> usize {
        match self {
            Kind::Tri => 2,
            _ => 1,
        }
    }
    fn ncol(self) -> u8 {
        match self {
            Kind::Bw => 2,
            Kind::Tri => 3,
            Kind::Oct => 8,
        }
    }
    fn tag(self) -> &'static str {
        match self {
            Kind::Bw => "color",
            Kind::Tri => "tricolor",
            Kind::Oct => "octcolor",
        }
    }
    fn type_name(self) -> &'static str {
        match self {
            Kind::Bw => "Color",
            Kind::Tri => "TriColor",
            Kind::Oct => "OctColor",
        }
    }
    fn var_group(self) -> &'static str {
        match self {
            Kind::Bw => "VarDisplay<Color>",
            Kind::Tri => "VarDisplay<TriColor>",
            Kind::Oct => "VarDisplay<OctColor>",
        }
    }
    /// colour index convention of the model: Bw 0=Black 1=White; Tri 0=Black 1=White 2=Chromatic;
    /// Oct: index == documented 4-bit code
    fn colour_name(self, ci: u8) -> &'static str {
        match self {
            Kind::Bw => ["Black", "White"][ci as usize],
            Kind::Tri => ["Black", "White", "Chromatic"][ci as usize],
            Kind::Oct => ["Black", "White", "Green", "Blue", "Red", "Yellow", "Orange", "HiZ"][ci as usize],
        }
    }
}

const ROT_TAG: [&str; 4] = ["rot0", "rot90", "rot180", "rot270"];
fn rot_of(r: u8) -> DisplayRotation {
    match r {
        0 => DisplayRotation::Rotate0,
        1 => DisplayRotation::Rotate90,
        2 => DisplayRotation::Rotate180,
        _ => DisplayRotation::Rotate270,
    }
}

#[derive(Clone, Copy, Debug)]
struct Geo {
    w: u32,
    h: u32,
    kind: Kind,
    bwrbit: bool,
}

/// bytes/bits one pixel occupies (one entry per plane)
#[derive(Clone, Copy, Debug)]
struct Target {
    n: usize,
    idx: [usize; 2],
    mask: [u8; 2],
    val: [u8; 2],
}

impl Geo {
    fn stride(&self) -> usize {
        (self.w as usize * self.kind.bpp() + 7) / 8
    }
    fn plane_len(&self) -> usize {
        self.stride() * self.h as usize
    }
    fn total(&self) -> usize {
        self.plane_len() * self.kind.planes()
    }
    fn logical(&self, rot: u8) -> (u32, u32) {
        if rot & 1 == 0 {
            (self.w, self.h)
        } else {
            (self.h, self.w)
        }
    }
    /// logical point (rotated frame) -> physical pixel, None when outside the rotated bounds
    fn map(&self, rot: u8, x: i32, y: i32) -> Option<(u32, u32)> {
        let (lw, lh) = self.logical(rot);
        let (x, y) = (x as i64, y as i64);
        if x < 0 || y < 0 || x >= lw as i64 || y >= lh as i64 {
            return None;
        }
        let (w, h) = (self.w as i64, self.h as i64);
        let (px, py) = match rot {
            0 => (x, y),
            1 => (w - 1 - y, x),
            2 => (w - 1 - x, h - 1 - y),
            _ => (y, h - 1 - x),
        };
        Some((px as u32, py as u32))
    }
    fn target(&self, px: u32, py: u32, ci: u8) -> Target {
        let (px, py) = (px as usize, py as usize);
        match self.kind {
            Kind::Bw => {
                let i = py * self.stride() + px / 8;
                let bit = 0x80u8 >> (px % 8);
                let v = if ci == 1 { bit } else { 0 };
                Target { n: 1, idx: [i, 0], mask: [bit, 0], val: [v, 0] }
            }
            Kind::Tri => {
                let i = py * self.stride() + px / 8;
                let bit = 0x80u8 >> (px % 8);
                let bw = match ci {
                    0 => 0,
                    1 => bit,
                    _ => {
                        if self.bwrbit {
                            0
                        } else {
                            bit
                        }
                    }
                };
                let chr = if ci == 2 { bit } else { 0 };
                Target { n: 2, idx: [i, i + self.plane_len()], mask: [bit, bit], val: [bw, chr] }
            }
            Kind::Oct => {
                let i = py * self.stride() + px / 2;
                let (m, v) = if px % 2 == 0 { (0xF0u8, ci << 4) } else { (0x0Fu8, ci) };
                Target { n: 1, idx: [i, 0], mask: [m, 0], val: [v, 0] }
            }
        }
    }
}

/// glue: model colour index -> library colour value (explicit variant tables, no library decoder used)
pub trait Ck: ColorType + PixelColor + Copy {
    const KIND: Kind;
    fn from_idx(ci: u8) -> Self;
}
impl Ck for Color {
    const KIND: Kind = Kind::Bw;
    fn from_idx(ci: u8) -> Self {
        [Color::Black, Color::White][ci as usize]
    }
}
impl Ck for TriColor {
    const KIND: Kind = Kind::Tri;
    fn from_idx(ci: u8) -> Self {
        [TriColor::Black, TriColor::White, TriColor::Chromatic][ci as usize]
    }
}
impl Ck for OctColor {
    const KIND: Kind = Kind::Oct;
    fn from_idx(ci: u8) -> Self {
        [
            OctColor::Black,
            OctColor::White,
            OctColor::Green,
            OctColor::Blue,
            OctColor::Red,
            OctColor::Yellow,
            OctColor::Orange,
            OctColor::HiZ,
        ][ci as usize]
    }
}

// ------------------------------------------------------------------------------------------------
// shipped aliases behind a trait object
// ------------------------------------------------------------------------------------------------

trait Fb {
    fn set_rot(&mut self, r: DisplayRotation);
    fn dims(&self) -> (u32, u32);
    fn bytes(&self) -> &[u8];
    fn px(&mut self, x: i32, y: i32, ci: u8);
    fn iter(&mut self, pts: &mut dyn Iterator<Item = (i32, i32, u8)>);
}

impl<const W: u32, const H: u32, const B: bool, const N: usize, C: Ck> Fb for Display<W, H, B, N, C> {
    fn set_rot(&mut self, r: DisplayRotation) {
        self.set_rotation(r)
    }
    fn dims(&self) -> (u32, u32) {
        let s = self.size();
        (s.width, s.height)
    }
    fn bytes(&self) -> &[u8] {
        self.buffer()
    }
    fn px(&mut self, x: i32, y: i32, ci: u8) {
        self.set_pixel(Pixel(Point::new(x, y), C::from_idx(ci)))
    }
    fn iter(&mut self, pts: &mut dyn Iterator<Item = (i32, i32, u8)>) {
        let _ = self.draw_iter(pts.map(|(x, y, ci)| Pixel(Point::new(x, y), C::from_idx(ci))));
    }
}

struct Alias {
    name: &'static str,
    w: u32,
    h: u32,
    kind: Kind,
    bwrbit: bool,
    make: fn() -> Box<dyn Fb>,
}

/// geometry from the driver module constants; colour type / BWRBIT from DESIGN appendix A
macro_rules! alias {
    ($name:expr, $m:ident, $t:ident, $kind:expr, $bwr:expr) => {
        Alias {
            name: $name,
            w: epd_waveshare::$m::WIDTH,
            h: epd_waveshare::$m::HEIGHT,
            kind: $kind,
            bwrbit: $bwr,
            make: || Box::new(epd_waveshare::$m::$t::default()),
        }
    };
}

fn aliases() -> Vec<Alias> {
    use Kind::*;
    vec![
        alias!("Display1in02", epd1in02, Display1in02, Bw, false),
        alias!("Display1in54", epd1in54, Display1in54, Bw, false),
        alias!("epd1in54_v2::Display1in54", epd1in54_v2, Display1in54, Bw, false),
        alias!("Display1in54b", epd1in54b, Display1in54b, Bw, false),
        alias!("Display1in54c", epd1in54c, Display1in54c, Bw, false),
        alias!("Display2in13", epd2in13_v2, Display2in13, Bw, false),
        alias!("Display2in13b", epd2in13b_v4, Display2in13b, Tri, false),
        alias!("Display2in13bc", epd2in13bc, Display2in13bc, Tri, true),
        alias!("Display2in66b", epd2in66b, Display2in66b, Tri, false),
        alias!("epd2in7::Display2in7", epd2in7, Display2in7, Bw, false),
        alias!("epd2in7_v2::Display2in7", epd2in7_v2, Display2in7, Bw, false),
        alias!("Display2in7b", epd2in7b, Display2in7b, Bw, false),
        alias!("epd2in9::Display2in9", epd2in9, Display2in9, Bw, false),
        alias!("epd2in9_v2::Display2in9", epd2in9_v2, Display2in9, Bw, false),
        alias!("Display2in9b", epd2in9b_v4, Display2in9b, Tri, true),
        alias!("Display2in9bc", epd2in9bc, Display2in9bc, Bw, false),
        alias!("Display2in9d", epd2in9d, Display2in9d, Bw, false),
        alias!("Display3in7", epd3in7, Display3in7, Bw, false),
        alias!("Display4in2", epd4in2, Display4in2, Bw, false),
        alias!("Display5in65f", epd5in65f, Display5in65f, Oct, false),
        alias!("epd5in83_v2::Display5in83", epd5in83_v2, Display5in83, Bw, false),
        alias!("epd5in83b_v2::Display5in83", epd5in83b_v2, Display5in83, Tri, false),
        alias!("Display7in3f", epd7in3f, Display7in3f, Oct, false),
        alias!("epd7in5::Display7in5", epd7in5, Display7in5, Bw, false),
        alias!("epd7in5_hd::Display7in5", epd7in5_hd, Display7in5, Bw, false),
        alias!("epd7in5_v2::Display7in5", epd7in5_v2, Display7in5, Bw, false),
        alias!("epd7in5b_v2::Display7in5", epd7in5b_v2, Display7in5, Tri, false),
        alias!("epd7in5b_v3::Display7in5", epd7in5b_v3, Display7in5, Tri, false),
    ]
}

// ------------------------------------------------------------------------------------------------
// the checker
// ------------------------------------------------------------------------------------------------

const SENT: u8 = 0xA5;
const TAIL: usize = 64;

fn h64(v: &[u64]) -> u64 {
    let mut h = 0xC03u64;
    for &x in v {
        h = mix64(h ^ x.wrapping_mul(0x9E3779B97F4A7C15));
    }
    h
}

fn panic_msg(p: Box<dyn std::any::Any + Send>) -> String {
    if let Some(s) = p.downcast_ref::<&str>() {
        s.to_string()
    } else if let Some(s) = p.downcast_ref::<String>() {
        s.clone()
    } else {
        "<non-string panic payload>".to_string()
    }
}

fn is_extreme(v: i32) -> bool {
    v < -(1 << 30) || v > (1 << 30)
}

#[derive(Default)]
struct Tally {
    set_pixel_calls: u64,
    draw_iter_calls: u64,
    pts_in: u64,
    pts_in_single: u64,
    pts_out: u64,
    panics: u64,
    compares: u64,
    bytes: u64,
    size_checks: u64,
    tail_checks: u64,
    batch_pixels: u64,
    mismatches: u64,
}

struct Chk<'a> {
    group: &'a str,
    var: bool,
    geo: Geo,
    seed: u64,
    shadow: Vec<u8>,
    t: Tally,
}

impl<'a> Chk<'a> {
    /// region (a) of the known defect: ceil(2w/8) != 2*ceil(w/8) <=> w%8 in 1..=4
    fn known_tri_region(&self) -> bool {
        self.var && self.geo.kind == Kind::Tri && (1..=4).contains(&(self.geo.w % 8))
    }
    fn tags(&self, rot: u8, extra: &[String]) -> Vec<String> {
        if self.known_tri_region() {
            return vec!["vardisplay".into(), "tricolor".into(), "w%8!=0".into()];
        }
        let mut v: Vec<String> = vec![
            if self.var { "vardisplay".into() } else { "alias".into() },
            self.geo.kind.tag().into(),
            ROT_TAG[rot as usize].into(),
        ];
        if self.geo.kind == Kind::Tri {
            v.push(format!("bwrbit={}", self.geo.bwrbit));
        }
        v.extend(extra.iter().cloned());
        v
    }
    fn case_json(&self, rot: u8, via: &str, pts: &[(i32, i32, u8)]) -> J {
        let mut j = J::obj()
            .set("target", if self.var { "VarDisplay" } else { "Display alias" })
            .set("group", self.group)
            .set("width", self.geo.w)
            .set("height", self.geo.h)
            .set("colour_type", self.geo.kind.type_name())
            .set("bwrbit", self.geo.bwrbit)
            .set("rotation", ROT_TAG[rot as usize])
            .set("via", via)
            .set("seed", self.seed)
            .set("points_in_call", pts.len());
        if pts.len() == 1 {
            j.put("x", pts[0].0);
            j.put("y", pts[0].1);
            j.put("colour", self.geo.kind.colour_name(pts[0].2));
        } else {
            j.put("batch", "all points of the case, colour = hash(x,y,seed) % ncolours (see c03.rs batch_colour)");
        }
        j
    }
    fn fail(&self, rep: &mut Report, rot: u8, via: &str, class: &str, tags: Vec<String>, detail: String, pts: &[(i32, i32, u8)]) {
        rep.fail(Failure {
            panel: self.group.to_string(),
            entry: via.to_string(),
            class: class.to_string(),
            tags,
            detail,
            case: self.case_json(rot, via, pts),
        });
    }

    fn check_size(&mut self, rep: &mut Report, rot: u8, got: (u32, u32)) {
        self.t.size_checks += 1;
        let want = self.geo.logical(rot);
        if got != want {
            let tags = vec![
                if self.var { "vardisplay".to_string() } else { "alias".to_string() },
                ROT_TAG[rot as usize].to_string(),
            ];
            rep.fail(Failure {
                panel: self.group.to_string(),
                entry: "size".into(),
                class: "size-not-swapped".into(),
                tags,
                detail: format!(
                    "{} {}x{} {}: size() = {}x{}, expected {}x{}",
                    self.group, self.geo.w, self.geo.h, ROT_TAG[rot as usize], got.0, got.1, want.0, want.1
                ),
                case: self.case_json(rot, "size", &[]),
            });
        }
    }

    /// Account for one real call. `real` = every byte that must be accounted for (alias: `buffer()`;
    /// VarDisplay: the whole backing slice, tail included); `exposed` = `buffer().len()`.
    fn after_call(
        &mut self,
        rep: &mut Report,
        rot: u8,
        via: &'static str,
        pts: &[(i32, i32, u8)],
        panic: Option<String>,
        real: &[u8],
        exposed: usize,
    ) {
        if via == "set_pixel" {
            self.t.set_pixel_calls += 1;
        } else {
            self.t.draw_iter_calls += 1;
        }
        let single = pts.len() == 1;
        let n = real.len();
        if let Some(msg) = panic {
            self.t.panics += 1;
            let ext = pts.iter().find(|p| is_extreme(p.0) || is_extreme(p.1));
            let tags = if ext.is_some() {
                vec!["extreme-coordinate".to_string(), ROT_TAG[rot as usize].to_string()]
            } else if single {
                let inb = self.geo.map(rot, pts[0].0, pts[0].1).is_some();
                self.tags(rot, &[if inb { "in-bounds".to_string() } else { "out-of-bounds".to_string() }])
            } else {
                self.tags(rot, &["batch".to_string()])
            };
            let detail = if single {
                format!(
                    "{} {}x{} bwrbit={} {}: {}(({},{}), {}) panicked: {}",
                    self.group,
                    self.geo.w,
                    self.geo.h,
                    self.geo.bwrbit,
                    ROT_TAG[rot as usize],
                    via,
                    pts[0].0,
                    pts[0].1,
                    self.geo.kind.colour_name(pts[0].2),
                    msg
                )
            } else {
                format!(
                    "{} {}x{} bwrbit={} {}: {} over {} points panicked: {}",
                    self.group,
                    self.geo.w,
                    self.geo.h,
                    self.geo.bwrbit,
                    ROT_TAG[rot as usize],
                    via,
                    pts.len(),
                    msg
                )
            };
            self.fail(rep, rot, via, "panic", tags, detail, pts);
            // the call may have written part of its effect before panicking: resynchronise
            self.shadow[..n].copy_from_slice(real);
            return;
        }
        // model
        let mut any_in = false;
        let mut beyond = false;
        for &(x, y, ci) in pts {
            match self.geo.map(rot, x, y) {
                Some((px, py)) => {
                    any_in = true;
                    self.t.pts_in += 1;
                    if single {
                        self.t.pts_in_single += 1;
                    }
                    let t = self.geo.target(px, py, ci);
                    for k in 0..t.n {
                        let i = t.idx[k];
                        if i >= exposed.min(n) {
                            // a byte the display does not expose cannot legitimately be written:
                            // leave the shadow alone there so that any change shows up as a clobber
                            beyond = true;
                        } else {
                            self.shadow[i] = self.shadow[i] & !t.mask[k] | t.val[k];
                        }
                    }
                }
                None => self.t.pts_out += 1,
            }
        }
        if !single {
            self.t.batch_pixels += pts.len() as u64;
        }
        // whole-buffer comparison
        self.t.compares += 1;
        self.t.bytes += n as u64;
        if self.var {
            self.t.tail_checks += 1;
        }
        if !beyond && real == &self.shadow[..n] {
            return;
        }
        self.t.mismatches += 1;
        self.classify(rep, rot, via, pts, real, exposed, any_in);
        self.shadow[..n].copy_from_slice(real);
    }

    fn classify(&mut self, rep: &mut Report, rot: u8, via: &'static str, pts: &[(i32, i32, u8)], real: &[u8], exposed: usize, any_in: bool) {
        let n = real.len();
        let single = pts.len() == 1;
        let mut covered = vec![0u8; self.shadow.len().max(n)];
        let mut outside: Option<(usize, usize)> = None; // (index, plane) of a target byte outside `real`
        for &(x, y, ci) in pts {
            if let Some((px, py)) = self.geo.map(rot, x, y) {
                let t = self.geo.target(px, py, ci);
                for k in 0..t.n {
                    if t.idx[k] < exposed.min(n) {
                        covered[t.idx[k]] |= t.mask[k];
                    } else if outside.is_none() {
                        outside = Some((t.idx[k], k));
                    }
                }
            }
        }
        let plane_len = self.geo.plane_len();
        let plane_of = |i: usize| if self.geo.kind == Kind::Tri && i >= plane_len { "plane=chr" } else if self.geo.kind == Kind::Tri { "plane=bw" } else { "plane=0" };
        let mut first_target: Option<usize> = None;
        let mut first_stray: Option<usize> = None;
        let mut first_tail: Option<usize> = None;
        for i in 0..n {
            let d = real[i] ^ self.shadow[i];
            if d == 0 {
                continue;
            }
            if i >= exposed {
                first_tail.get_or_insert(i);
                continue;
            }
            if d & covered[i] != 0 {
                first_target.get_or_insert(i);
            }
            if d & !covered[i] != 0 {
                first_stray.get_or_insert(i);
            }
        }
        let head = if single {
            format!(
                "{} {}x{} bwrbit={} {}: {}(({},{}), {})",
                self.group,
                self.geo.w,
                self.geo.h,
                self.geo.bwrbit,
                ROT_TAG[rot as usize],
                via,
                pts[0].0,
                pts[0].1,
                self.geo.kind.colour_name(pts[0].2)
            )
        } else {
            format!(
                "{} {}x{} bwrbit={} {}: {} over {} points",
                self.group,
                self.geo.w,
                self.geo.h,
                self.geo.bwrbit,
                ROT_TAG[rot as usize],
                via,
                pts.len()
            )
        };
        let colour_tag = |s: &Self| -> String {
            if single {
                format!("colour={}", s.geo.kind.colour_name(pts[0].2))
            } else {
                "batch".to_string()
            }
        };
        if let Some(i) = first_tail {
            let tags = self.tags(rot, &[]);
            let detail = format!(
                "{}: byte {} beyond the exposed slice (buffer().len() = {}) changed {:#04x} -> {:#04x}",
                head, i, exposed, self.shadow[i], real[i]
            );
            self.fail(rep, rot, via, "sentinel-clobbered", tags, detail, pts);
        }
        if !any_in {
            if let Some(i) = first_target.or(first_stray) {
                let (x, y) = (pts[0].0 as i64, pts[0].1 as i64);
                let (lw, lh) = self.geo.logical(rot);
                let mut side = Vec::new();
                if single {
                    if x < 0 {
                        side.push("x<0".to_string());
                    }
                    if x >= lw as i64 {
                        side.push("x>=width".to_string());
                    }
                    if y < 0 {
                        side.push("y<0".to_string());
                    }
                    if y >= lh as i64 {
                        side.push("y>=height".to_string());
                    }
                } else {
                    side.push("batch".to_string());
                }
                let tags = self.tags(rot, &side);
                let detail = format!(
                    "{}: point is outside the {}x{} rotated bounds but byte {} changed {:#04x} -> {:#04x}",
                    head, lw, lh, i, self.shadow[i], real[i]
                );
                self.fail(rep, rot, via, "oob-point-wrote", tags, detail, pts);
            }
            return;
        }
        if let Some((i, k)) = outside {
            let tags = self.tags(rot, &[colour_tag(self), if k == 1 { "plane=chr".to_string() } else { plane_of(i).to_string() }, "target-outside-buffer".to_string()]);
            let detail = format!(
                "{}: the pixel's byte {} (plane {}) lies outside the buffer the display exposes ({} bytes; model needs {})",
                head,
                i,
                k,
                exposed,
                self.geo.total()
            );
            self.fail(rep, rot, via, "target-bit-wrong", tags, detail, pts);
        }
        if let Some(i) = first_target {
            let tags = self.tags(rot, &[colour_tag(self), plane_of(i).to_string()]);
            let detail = format!(
                "{}: target byte {} is {:#04x}, model expects {:#04x} (pixel bits {:#04x})",
                head, i, real[i], self.shadow[i], covered[i]
            );
            self.fail(rep, rot, via, "target-bit-wrong", tags, detail, pts);
        }
        if let Some(i) = first_stray {
            let rel = if covered[i] != 0 { "same-byte" } else { "other-byte" };
            let tags = self.tags(rot, &[colour_tag(self), plane_of(i).to_string(), rel.to_string()]);
            let detail = format!(
                "{}: byte {} is {:#04x}, model expects {:#04x}: bits {:#04x} outside the target pixel changed",
                head,
                i,
                real[i],
                self.shadow[i],
                (real[i] ^ self.shadow[i]) & !covered[i]
            );
            self.fail(rep, rot, via, "stray-bit", tags, detail, pts);
        }
    }

    fn flush(&mut self, rep: &mut Report) {
        let t = std::mem::take(&mut self.t);
        let calls = t.set_pixel_calls + t.draw_iter_calls;
        rep.evaluations += calls;
        *rep.per_panel.entry(self.group.to_string()).or_insert(0) += calls;
        rep.count("set_pixel_calls", t.set_pixel_calls);
        rep.count("draw_iter_calls", t.draw_iter_calls);
        rep.count("points_in_bounds_checked", t.pts_in);
        rep.count("points_out_of_bounds_checked", t.pts_out);
        rep.count("nontrivial_items", t.pts_in_single);
        rep.count("panics_caught", t.panics);
        rep.count("buffers_compared", t.compares);
        rep.count("bytes_compared", t.bytes);
        rep.count("size_checks", t.size_checks);
        rep.count("sentinel_tail_checks", t.tail_checks);
        rep.count("pixels_in_batch_draw_iter_calls", t.batch_pixels);
        rep.count("calls_with_buffer_mismatch", t.mismatches);
    }
}

fn batch_colour(seed: u64, x: i32, y: i32, ncol: u8) -> u8 {
    (h64(&[seed, x as u32 as u64, y as u32 as u64, 0xBA7C]) % ncol as u64) as u8
}

fn extremes(w: u32, h: u32) -> Vec<i32> {
    let mut v = vec![
        i32::MIN,
        i32::MIN + 1,
        -1,
        0,
        w as i32 - 1,
        w as i32,
        h as i32 - 1,
        h as i32,
        i32::MAX,
    ];
    v.sort();
    v.dedup();
    v
}

// ------------------------------------------------------------------------------------------------
// VarDisplay
// ------------------------------------------------------------------------------------------------

struct VarOut {
    panic: Option<String>,
    size: Option<(u32, u32)>,
    exposed: Option<usize>,
    rejected: bool,
}

fn var_call<C: Ck>(geo: &Geo, rot: u8, backing: &mut [u8], pts: &[(i32, i32, u8)], via_iter: bool) -> VarOut {
    let mut size = None;
    let mut exposed = None;
    let mut rejected = false;
    let r = catch_unwind(AssertUnwindSafe(|| {
        let mut d = match VarDisplay::<C>::new(geo.w, geo.h, backing, geo.bwrbit) {
            Ok(d) => d,
            Err(_) => {
                rejected = true;
                return;
            }
        };
        d.set_rotation(rot_of(rot));
        let s = d.size();
        size = Some((s.width, s.height));
        exposed = Some(d.buffer().len());
        if via_iter {
            let _ = d.draw_iter(pts.iter().map(|&(x, y, ci)| Pixel(Point::new(x, y), C::from_idx(ci))));
        } else {
            for &(x, y, ci) in pts {
                d.set_pixel(Pixel(Point::new(x, y), C::from_idx(ci)));
            }
        }
        exposed = Some(d.buffer().len());
    }));
    VarOut { panic: r.err().map(panic_msg), size, exposed, rejected }
}

fn var_case<C: Ck>(w: u32, h: u32, seed: u64, miri: bool, rep: &mut Report) {
    let kind = C::KIND;
    let group = kind.var_group();
    let gh = hash_str(group);
    // Under Miri a caught panic costs ~0.1 s, so the interpreter pass keeps the full 1..=10 geometry range
    // but draws the coordinate extremes on two geometries only, uses a margin of 1 instead of 3 and ignores bwrbit=true for the colour
    // types that do not look at it.
    let do_extremes = !miri || [(2, 3), (10, 10)].contains(&(w, h));
    // margin around the rotated bounds: 3 (Miri: 1)
    let mg: i32 = if miri { 1 } else { 3 };
    for bwrbit in [false, true] {
        if miri && bwrbit && kind != Kind::Tri {
            continue;
        }
        let geo = Geo { w, h, kind, bwrbit };
        let total = geo.total();
        let mut backing = vec![SENT; total + TAIL];
        let mut rng = Rng::derive(seed, h64(&[0xC03, w as u64, h as u64, kind as u64, bwrbit as u64]));
        for b in &mut backing[..total] {
            *b = rng.next() as u8;
        }
        // constructor probe: a legitimate Err(BufferTooSmall) means "not a C03 case"
        let probe = var_call::<C>(&geo, 0, &mut backing, &[], false);
        let mut chk = Chk { group, var: true, geo, seed, shadow: backing.clone(), t: Tally::default() };
        if let Some(msg) = probe.panic {
            let tags = chk.tags(0, &["constructor".to_string()]);
            chk.fail(
                rep,
                0,
                "VarDisplay::new",
                "panic",
                tags,
                format!("{} new({}, {}, len {}, bwrbit={}) panicked: {}", group, w, h, total + TAIL, bwrbit, msg),
                &[],
            );
            continue;
        }
        if probe.rejected {
            rep.count("vardisplay_rejected_not_a_case", 1);
            continue;
        }
        let mut exposed = probe.exposed.unwrap_or(total);
        if exposed != total {
            rep.count("vardisplay_exposed_len_differs_from_model", 1);
        }
        let ncol = kind.ncol();
        let mut sampled = false;
        for rot in 0..4u8 {
            let (lw, lh) = geo.logical(rot);
            let do_call = |chk: &mut Chk, rep: &mut Report, backing: &mut Vec<u8>, pts: &[(i32, i32, u8)], via_iter: bool, exposed: &mut usize| {
                let o = var_call::<C>(&geo, rot, backing, pts, via_iter);
                if o.rejected {
                    rep.count("vardisplay_rejected_not_a_case", 1);
                    return;
                }
                if let Some(s) = o.size {
                    chk.check_size(rep, rot, s);
                }
                if let Some(e) = o.exposed {
                    *exposed = e;
                }
                chk.after_call(rep, rot, if via_iter { "draw_iter" } else { "set_pixel" }, pts, o.panic, backing, *exposed);
            };
            // every point of [-3, lw+3] x [-3, lh+3], every colour
            // (Miri: one rotation per geometry, chosen by (w+h)%4, ~1.5 ms per interpreted call)
            let grid = !miri || rot as u32 == (w + h) % 4;
            let (gy, gx) = if grid { (lh as i32 + mg, lw as i32 + mg) } else { (-mg - 1, -mg - 1) };
            for y in -mg..=gy {
                for x in -mg..=gx {
                    let start = batch_colour(seed ^ 0x51, x, y, ncol);
                    for k in 0..ncol {
                        let ci = (start + k) % ncol;
                        let via_iter = x.wrapping_add(y.wrapping_mul(2)).wrapping_add(k as i32).rem_euclid(5) == 0;
                        if !sampled && (rot == 1 || miri) && [(13, 5), (5, 3)].contains(&(w, h)) && x == 1 && y == 1 && geo.map(rot, x, y).is_some() {
                            sampled = true;
                            let (px, py) = geo.map(rot, x, y).unwrap();
                            let t = geo.target(px, py, ci);
                            let before = chk.shadow.get(t.idx[0]).copied();
                            do_call(&mut chk, rep, &mut backing, &[(x, y, ci)], via_iter, &mut exposed);
                            rep.sample(
                                J::obj()
                                    .set("group", group)
                                    .set("width", w)
                                    .set("height", h)
                                    .set("bwrbit", bwrbit)
                                    .set("rotation", ROT_TAG[rot as usize])
                                    .set("point", vec![x, y])
                                    .set("colour", kind.colour_name(ci))
                                    .set("model_physical_pixel", vec![px, py])
                                    .set("model_byte_index", t.idx[0])
                                    .set("model_pixel_mask", t.mask[0])
                                    .set("model_value_bits", t.val[0])
                                    .set("byte_before", before.map(|b| b as u32))
                                    .set("real_byte_after", backing.get(t.idx[0]).map(|b| *b as u32))
                                    .set("backing_len", backing.len())
                                    .set("exposed_len", exposed),
                            );
                            continue;
                        }
                        do_call(&mut chk, rep, &mut backing, &[(x, y, ci)], via_iter, &mut exposed);
                    }
                }
            }
            // coordinate extremes squared
            let ex = if do_extremes { extremes(w, h) } else { Vec::new() };
            for &y in &ex {
                for &x in &ex {
                    for ci in 0..ncol {
                        if miri && ci != 0 && ci != ncol - 1 {
                            continue; // Miri: first and last colour only at the extremes
                        }
                        do_call(&mut chk, rep, &mut backing, &[(x, y, ci)], false, &mut exposed);
                    }
                }
            }
            // one batch draw_iter over the whole grid (in- and out-of-bounds points mixed)
            if grid {
                let mut pts = Vec::with_capacity(((lw + 7) * (lh + 7)) as usize);
                for y in -mg..=(lh as i32 + mg) {
                    for x in -mg..=(lw as i32 + mg) {
                        pts.push((x, y, batch_colour(seed ^ rot as u64, x, y, ncol)));
                    }
                }
                do_call(&mut chk, rep, &mut backing, &pts, true, &mut exposed);
                for ci in 0..ncol {
                    rep.nontrivial(h64(&[gh, w as u64, h as u64, bwrbit as u64, rot as u64, ci as u64]));
                }
            }
        }
        chk.flush(rep);
    }
}

// ------------------------------------------------------------------------------------------------
// shipped aliases
// ------------------------------------------------------------------------------------------------

fn alias_case(a: &Alias, rot: u8, rows: Option<(u32, u32)>, seed: u64, rep: &mut Report) {
    let geo = Geo { w: a.w, h: a.h, kind: a.kind, bwrbit: a.bwrbit };
    let gh = hash_str(a.name);
    let mut d = (a.make)();
    d.set_rot(rot_of(rot));
    let n = d.bytes().len();
    let total = geo.total();
    let mut chk = Chk { group: a.name, var: false, geo, seed, shadow: vec![0u8; n.max(total)], t: Tally::default() };
    if n != total {
        rep.count("alias_buffer_len_differs_from_model", 1);
    }
    chk.shadow[..n].copy_from_slice(d.bytes());
    chk.check_size(rep, rot, d.dims());
    let (lw, lh) = geo.logical(rot);
    let ncol = a.kind.ncol();
    // background: one draw_iter call painting every pixel with a pseudo-random colour
    {
        let mut pts = Vec::with_capacity((lw * lh) as usize);
        for y in 0..lh as i32 {
            for x in 0..lw as i32 {
                pts.push((x, y, batch_colour(seed ^ gh, x, y, ncol)));
            }
        }
        let r = catch_unwind(AssertUnwindSafe(|| d.iter(&mut pts.iter().copied())));
        chk.after_call(rep, rot, "draw_iter", &pts, r.err().map(panic_msg), d.bytes(), n);
    }
    let mut sampled = false;
    let mut one = |chk: &mut Chk, rep: &mut Report, d: &mut Box<dyn Fb>, x: i32, y: i32, allow_iter: bool| {
        let start = batch_colour(seed ^ 0x51, x, y, ncol);
        for k in 0..ncol {
            let ci = (start + k) % ncol;
            let via_iter = allow_iter && x.wrapping_add(y.wrapping_mul(3)).wrapping_add(k as i32).rem_euclid(11) == 0;
            let want_sample = !sampled
                && x == 5
                && y == 0
                && [("Display7in3f", 1u8), ("Display2in13b", 2), ("Display2in9b", 3), ("Display4in2", 0)].contains(&(a.name, rot));
            let before = if want_sample {
                geo.map(rot, x, y).map(|(px, py)| {
                    let t = geo.target(px, py, ci);
                    (px, py, t, chk.shadow.get(t.idx[0]).copied())
                })
            } else {
                None
            };
            let r = catch_unwind(AssertUnwindSafe(|| {
                if via_iter {
                    d.iter(&mut std::iter::once((x, y, ci)))
                } else {
                    d.px(x, y, ci)
                }
            }));
            chk.after_call(rep, rot, if via_iter { "draw_iter" } else { "set_pixel" }, &[(x, y, ci)], r.err().map(panic_msg), d.bytes(), n);
            if let Some((px, py, t, b)) = before {
                sampled = true;
                rep.sample(
                    J::obj()
                        .set("group", a.name)
                        .set("width", a.w)
                        .set("height", a.h)
                        .set("bwrbit", a.bwrbit)
                        .set("rotation", ROT_TAG[rot as usize])
                        .set("point", vec![x, y])
                        .set("colour", a.kind.colour_name(ci))
                        .set("model_physical_pixel", vec![px, py])
                        .set("model_byte_index", t.idx[0])
                        .set("model_pixel_mask", t.mask[0])
                        .set("model_value_bits", t.val[0])
                        .set("byte_before", b.map(|b| b as u32))
                        .set("real_byte_after", d.bytes().get(t.idx[0]).map(|b| *b as u32))
                        .set("buffer_len", n),
                );
            }
        }
    };
    match rows {
        Some((y0, y1)) => {
            // exhaustive: every pixel of the row chunk, every colour
            for y in y0..y1 {
                for x in 0..lw {
                    one(&mut chk, rep, &mut d, x as i32, y as i32, true);
                }
                for ci in 0..ncol {
                    rep.nontrivial(h64(&[gh, rot as u64, ci as u64, y as u64]));
                }
            }
            if y0 == 0 {
                let ex = extremes(a.w, a.h);
                for &y in &ex {
                    for &x in &ex {
                        one(&mut chk, rep, &mut d, x, y, false);
                    }
                }
            }
        }
        None => {
            // border pixels, one ring outside the border, stride-7 lattice, extremes squared
            let (lwi, lhi) = (lw as i32, lh as i32);
            for x in -1..=lwi {
                for y in [-1, 0, lhi - 1, lhi] {
                    one(&mut chk, rep, &mut d, x, y, true);
                }
            }
            for y in 1..lhi - 1 {
                for x in [-1, 0, lwi - 1, lwi] {
                    one(&mut chk, rep, &mut d, x, y, true);
                }
            }
            let mut y = 0;
            while y < lhi {
                let mut x = 0;
                while x < lwi {
                    one(&mut chk, rep, &mut d, x, y, true);
                    x += 7;
                }
                for ci in 0..ncol {
                    rep.nontrivial(h64(&[gh, rot as u64, ci as u64, y as u64]));
                }
                y += 7;
            }
            for ci in 0..ncol {
                rep.nontrivial(h64(&[gh, rot as u64, ci as u64, 0]));
                rep.nontrivial(h64(&[gh, rot as u64, ci as u64, lhi as u64 - 1]));
            }
            let ex = extremes(a.w, a.h);
            for &y in &ex {
                for &x in &ex {
                    one(&mut chk, rep, &mut d, x, y, false);
                }
            }
        }
    }
    chk.flush(rep);
}

// ------------------------------------------------------------------------------------------------
// driver
// ------------------------------------------------------------------------------------------------

enum Case {
    Alias { ai: usize, rot: u8, rows: Option<(u32, u32)> },
    Var { w: u32, h: u32, kind: Kind },
}

pub fn run(ctx: &Ctx) -> Report {
    let miri = ctx.mode == "miri";
    let al = aliases();
    let mut cases: Vec<(u64, Case)> = Vec::new();
    let want = |name: &str| ctx.only_panel.as_ref().map_or(true, |p| name.contains(p.as_str()));
    if !miri {
        for (ai, a) in al.iter().enumerate() {
            if !want(a.name) {
                continue;
            }
            let geo = Geo { w: a.w, h: a.h, kind: a.kind, bwrbit: a.bwrbit };
            let buflen = geo.total() as u64;
            for rot in 0..4u8 {
                let (lw, lh) = geo.logical(rot);
                if ctx.tier_thorough {
                    let cost_row = lw as u64 * a.kind.ncol() as u64 * buflen;
                    let rows_per = ((1_500_000_000u64 / cost_row.max(1)).max(1) as u32).min(lh);
                    let mut y = 0;
                    while y < lh {
                        let y1 = (y + rows_per).min(lh);
                        cases.push((cost_row * (y1 - y) as u64, Case::Alias { ai, rot, rows: Some((y, y1)) }));
                        y = y1;
                    }
                } else {
                    let pts = (2 * (lw + lh) + (lw / 7 + 1) * (lh / 7 + 1)) as u64;
                    cases.push((pts * a.kind.ncol() as u64 * buflen, Case::Alias { ai, rot, rows: None }));
                }
            }
        }
    }
    let vmax = if miri {
        10
    } else if ctx.tier_thorough {
        40
    } else {
        16
    };
    for kind in [Kind::Bw, Kind::Tri, Kind::Oct] {
        if !want(kind.var_group()) {
            continue;
        }
        for w in 1..=vmax {
            for h in 1..=vmax {
                // Miri only: of the VarDisplay<TriColor> geometries inside the known mis-sizing region
                // (w%8 in 1..=4, thousands of caught panics) keep three
                let geo = Geo { w, h, kind, bwrbit: false };
                let cost = ((w + 7) * (h + 7)) as u64 * 8 * kind.ncol() as u64 * (geo.total() as u64 + 200);
                cases.push((cost, Case::Var { w, h, kind }));
            }
        }
    }
    // degenerate run-time geometries ("any width and height"): width or height 0 - every point is out of
    // bounds, nothing may change and nothing may panic
    if !miri {
        for kind in [Kind::Bw, Kind::Tri, Kind::Oct] {
            if !want(kind.var_group()) {
                continue;
            }
            for a in 0..=9u32 {
                cases.push((1, Case::Var { w: 0, h: a, kind }));
                if a > 0 {
                    cases.push((1, Case::Var { w: a, h: 0, kind }));
                }
            }
        }
    }
    // heaviest first: par_run hands out chunks dynamically, so this balances the tail
    cases.sort_by(|a, b| b.0.cmp(&a.0));
    let cases: Vec<Case> = cases.into_iter().map(|c| c.1).collect();
    let cases = crate::report::shard(cases, ctx.shard);
    let threads = if miri { 1 } else { ctx.threads };
    let seed = ctx.seed;
    let mut rep = par_run(&cases, threads, |_i, c, rep| match c {
        Case::Alias { ai, rot, rows } => alias_case(&al[*ai], *rot, *rows, seed, rep),
        Case::Var { w, h, kind } => match kind {
            Kind::Bw => var_case::<Color>(*w, *h, seed, miri, rep),
            Kind::Tri => var_case::<TriColor>(*w, *h, seed, miri, rep),
            Kind::Oct => var_case::<OctColor>(*w, *h, seed, miri, rep),
        },
    });
    rep.count("cases", cases.len() as u64);
    rep.count("aliases_covered", if miri { 0 } else { al.iter().filter(|a| want(a.name)).count() as u64 });
    rep.note("evaluation = one real set_pixel/draw_iter call followed by a comparison of the WHOLE real buffer (VarDisplay: whole backing slice incl. 64-byte sentinel tail) with the shadow buffer of the independent model");
    rep.note("distinct_nontrivial hashes one entry per (group, geometry, bwrbit, rotation, colour[, logical row for aliases]) that contained in-bounds points; the exact number of single-point in-bounds draws (distinct (group, geometry, bwrbit, rotation, colour, point) up to the few extremes that coincide with grid points) compared with the model is counters.nontrivial_items; points_in_bounds_checked additionally counts the pixels of the batch draw_iter calls");
    rep.note("VarDisplay backing slices start with seeded random bytes (so cleared bits are observable); alias buffers are first painted with a seeded random colour per pixel through one draw_iter call that is itself checked");
    rep.note("tag w%8!=0 marks VarDisplay<TriColor> geometries with w%8 in 1..=4, the widths for which ceil(2w/8) != 2*ceil(w/8); widths with w%8 in 5..=7 size correctly and get ordinary tags");
    if miri {
        rep.note("mode miri: aliases skipped, VarDisplay w,h in 1..=10, single thread; per geometry the point grid (margin 1 instead of 3) is drawn in one rotation ((w+h)%4) instead of four; coordinate extremes (all four rotations, first and last colour) on geometries 2x3 and 10x10; bwrbit=true only for TriColor; of the VarDisplay<TriColor> geometries with w%8 in 1..=4 (known mis-sizing; every failing call is a caught panic costing ~0.4 s under Miri) only 1x1, 4x3, 9x10");
    }
    rep
}
