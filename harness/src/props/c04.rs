//! C04 — SPI failures are reported fail-stop and the driver stays recoverable.
//! Fault injection at SPI transfer index k of every operation; online monitor for traffic after
//! the failing transfer; recovery differential against the fault-free history.
use crate::hal::{Ev, Pin};
use crate::json::J;
use crate::model::{Ctrl, Power};
use crate::ops::*;
use crate::panels::*;
use crate::props::common::*;
use crate::prng::{hash_str, Rng};
use crate::report::{par_run, Failure, Report};
use crate::Ctx;

#[derive(Clone, Debug, PartialEq)]
struct Recov {
    effect: Vec<(Vec<u16>, Vec<u8>)>,
    refreshes: usize,
    power_at_refresh: Option<Power>,
    partial_at_refresh: Option<bool>,
    asleep: bool,
    outcome: Vec<String>,
}

fn recovery(rig: &mut Rig, spec: &Spec) -> Recov {
    let probe = frame_op(spec, K::UpdateFrame, 0x404);
    let mut outs = Vec::new();
    outs.push(rig.apply(&Op::new(K::WakeUp)).short());
    rig.board.borrow_mut().chip_mut().mark();
    let r0 = rig.board.borrow().chip().refreshes.len();
    outs.push(rig.apply(&probe).short());
    outs.push(rig.apply(&Op::new(K::Display)).short());
    let b = rig.board.borrow();
    let chip = b.chip();
    let effect = chip.planes.iter().map(|p| (p.wc.clone(), p.data.iter().zip(p.wc.iter()).map(|(d, w)| if *w > 0 { *d } else { 0 }).collect())).collect();
    let rs = &chip.refreshes[r0..];
    Recov { effect, refreshes: rs.len(), power_at_refresh: rs.last().map(|r| r.power), partial_at_refresh: rs.last().map(|r| r.partial_mode), asleep: chip.asleep, outcome: outs }
}

/// a driver on an always-idle panel, or on one that is busy for three polls after every busy-raising command
/// (wait loops then really iterate: status polls, delays and whatever else they do can fail too)
fn mk_rig(spec: &'static Spec, busy: bool, fault: Option<(u64, u32)>) -> Result<Rig, (Outcome, crate::hal::BoardRef)> {
    Rig::new(
        spec,
        |b| {
            if busy {
                b.busy_mode = crate::hal::BusyMode::Physical;
                b.chips[0].busy.default_d = 3;
            }
            if let Some((k, id)) = fault {
                b.arm_fault(k, id);
            }
        },
        None,
        false,
    )
}

/// transfers of the target op in a dry run: (is_command, opcode context)
fn dry_run(spec: &'static Spec, prefix: &[Op], target: Option<&Op>, busy: bool) -> Option<(Vec<(bool, u8)>, Recov)> {
    match target {
        None => {
            // constructor
            let mut rig = mk_rig(spec, busy, None).ok()?;
            let v = transfers_of_last_op(&rig);
            let rec = recovery(&mut rig, spec);
            Some((v, rec))
        }
        Some(t) => {
            let mut rig = mk_rig(spec, busy, None).ok()?;
            for o in prefix {
                if !rig.apply(o).is_ok() {
                    return None;
                }
            }
            if !rig.apply(t).is_ok() {
                return None;
            }
            let v = transfers_of_last_op(&rig);
            let rec = recovery(&mut rig, spec);
            Some((v, rec))
        }
    }
}

fn transfers_of_last_op(rig: &Rig) -> Vec<(bool, u8)> {
    let b = rig.board.borrow();
    let segs = op_segments(&b.log);
    let (_, s, e) = *segs.last().unwrap();
    let mut cur = 0u8;
    let mut v = Vec::new();
    for ev in &b.log[s..e] {
        if let Ev::Spi { levels, off, len, .. } = ev {
            let dc = levels & Pin::Dc.bit() != 0;
            if !dc && *len >= 1 {
                cur = b.bytes[*off as usize];
            }
            v.push((!dc, cur));
        }
    }
    v
}

/// choose fault indices: every command / short-burst transfer, ends + seeded interior of bulk bursts
fn fault_points(tr: &[(bool, u8)], exhaustive: bool, interior: usize, rng: &mut Rng) -> Vec<usize> {
    if exhaustive {
        return (0..tr.len()).collect();
    }
    let mut out = Vec::new();
    let mut i = 0;
    while i < tr.len() {
        if tr[i].0 {
            out.push(i);
            i += 1;
            continue;
        }
        let s = i;
        while i < tr.len() && !tr[i].0 {
            i += 1;
        }
        let e = i; // burst s..e
        let n = e - s;
        if n <= 32 {
            out.extend(s..e);
        } else {
            for k in [s, s + 1, e - 2, e - 1] {
                out.push(k);
            }
            for _ in 0..interior {
                out.push(s + 2 + rng.below((n - 4) as u64) as usize);
            }
        }
    }
    out.sort();
    out.dedup();
    out
}

struct Case {
    spec: &'static Spec,
    prefix: Vec<Op>,
    target: Option<Op>,
    ctx_tag: &'static str,
    busy: bool,
}

fn run_case(c: &Case, variant: &str, thorough: bool, seed: u64, rep: &mut Report) {
    let spec = c.spec;
    let entry = c.target.as_ref().map(|t| t.k.name()).unwrap_or("new").to_string();
    let Some((tr, ref_rec)) = dry_run(spec, &c.prefix, c.target.as_ref(), c.busy) else {
        rep.count("contexts_skipped_failing_without_fault", 1);
        return;
    };
    if tr.is_empty() {
        rep.count("ops_without_spi_traffic", 1);
        return;
    }
    let mut rng = Rng::derive(seed, hash_str(&format!("{}|{}|{}", spec.name, entry, ops_short(&c.prefix))));
    let small = matches!(spec.name, "epd1in02" | "epd1in54c" | "epd2in13bc");
    let pts = fault_points(&tr, thorough && small, if thorough { 8 } else { 2 }, &mut rng);
    rep.count("transfers_in_fault_free_runs", tr.len() as u64);
    for k in pts {
        rep.eval(spec.name);
        let id = 0x4000 + (k as u32 % 60000);
        let mut ops = c.prefix.clone();
        if let Some(t) = &c.target {
            ops.push(t.clone());
        }
        let kind = if tr[k].0 {
            "cmd"
        } else {
            let burst_len = {
                let mut s = k;
                while s > 0 && !tr[s - 1].0 {
                    s -= 1;
                }
                let mut e = k;
                while e < tr.len() && !tr[e].0 {
                    e += 1;
                }
                e - s
            };
            if burst_len > 32 {
                "bulk"
            } else {
                "param"
            }
        };
        let mut tags = vec![format!("during={:02X}", tr[k].1), format!("kind={}", kind)];
        if c.busy {
            tags.push("panel-busy".into());
        }
        let case = case_json(spec, variant, &ops).set("fault_index", k).set("of", tr.len()).set("context", c.ctx_tag);
        let mk = |class: &str, extra: Vec<String>, detail: String| {
            let mut t = tags.clone();
            t.extend(extra);
            Failure { panel: spec.name.into(), entry: entry.clone(), class: class.into(), tags: t, detail: format!("fault at transfer {} of {} ({}): {}", k, tr.len(), ops_short(&ops), detail), case: case.clone() }
        };
        let mut rig: Rig;
        let outcome: Outcome;
        match &c.target {
            None => match mk_rig(spec, c.busy, Some((k as u64, id))) {
                Ok(_r) => {
                    rep.fail(mk("ctor-returned-driver", vec![], "new() returned a driver although initialisation failed".into()));
                    continue;
                }
                Err((o, board)) => {
                    let b = board.borrow();
                    rep.count("faults_fired", b.fault_fired as u64);
                    rep.nontrivial(hash_str(&format!("{}|new|{}", spec.name, k)));
                    match o {
                        Outcome::Err(e) if e == id => {}
                        Outcome::Err(e) => rep.fail(mk("error-replaced", vec![], format!("new() returned error {} instead of {}", e, id))),
                        other => rep.fail(mk("panic", vec![], format!("new() ended with {}", other.short()))),
                    }
                    if b.traffic_after_fault > 0 {
                        rep.fail(mk("traffic-after-failure", vec![], format!("{} SPI transfers after the failing one", b.traffic_after_fault)));
                    }
                    continue;
                }
            },
            Some(t) => {
                rig = match mk_rig(spec, c.busy, None) {
                    Ok(r) => r,
                    Err(_) => continue,
                };
                let mut ok = true;
                for o in &c.prefix {
                    if !rig.apply(o).is_ok() {
                        ok = false;
                    }
                }
                if !ok {
                    continue;
                }
                rig.board.borrow_mut().arm_fault(k as u64, id);
                outcome = rig.apply(t);
            }
        }
        let (fired, after) = {
            let b = rig.board.borrow();
            (b.fault_fired, b.traffic_after_fault)
        };
        rig.board.borrow_mut().disarm_fault();
        if !fired {
            rep.count("fault_not_reached", 1);
            continue;
        }
        rep.count("faults_fired", 1);
        rep.nontrivial(hash_str(&format!("{}|{}|{}|{}|{}", spec.name, ops_short(&ops), c.ctx_tag, k, c.busy)));
        if c.busy {
            rep.count("faults_fired_on_busy_panel", 1);
        }
        let mut failed = false;
        match &outcome {
            Outcome::Err(e) if *e == id => {}
            Outcome::Err(e) => {
                rep.fail(mk("error-replaced", vec![], format!("returned error {} instead of {}", e, id)));
                failed = true;
            }
            Outcome::Ok => {
                rep.fail(mk("error-swallowed", vec![], "call returned Ok although a transfer failed".into()));
                failed = true;
            }
            other => {
                rep.fail(mk("panic", vec![], format!("call ended with {}", other.short())));
                failed = true;
            }
        }
        if after > 0 {
            rep.fail(mk("traffic-after-failure", vec![], format!("{} SPI transfers after the failing one before the call returned", after)));
            failed = true;
        }
        if rig.poisoned {
            continue;
        }
        // recovery
        let rec = recovery(&mut rig, spec);
        rep.count("recoveries_compared", 1);
        if rec.outcome.iter().any(|o| o != "ok") {
            rep.fail(mk("recovery-failed", vec![], format!("wake_up; update_frame; display_frame returned {:?}", rec.outcome)));
        } else if rec.effect != ref_rec.effect {
            let which = if rec.effect[0] != ref_rec.effect[0] { 0 } else { 1 };
            rep.fail(mk("recovery-plane-differs", vec![format!("plane={}", which)], format!("after recovery plane {} differs from the fault-free history", which)));
        } else if rec.refreshes != ref_rec.refreshes || rec.power_at_refresh != ref_rec.power_at_refresh || rec.partial_at_refresh != ref_rec.partial_at_refresh || rec.asleep != ref_rec.asleep {
            rep.fail(mk(
                "recovery-power-differs",
                vec![],
                format!("after recovery: refreshes {} power {:?} partial {:?} asleep {} — fault-free: {} {:?} {:?} {}", rec.refreshes, rec.power_at_refresh, rec.partial_at_refresh, rec.asleep, ref_rec.refreshes, ref_rec.power_at_refresh, ref_rec.partial_at_refresh, ref_rec.asleep),
            ));
        } else if !failed && rep.samples.len() < 10 {
            rep.sample(case.clone().set("result", outcome.short()).set("recovery", "same as fault-free"));
        }
    }
}

pub fn run(ctx: &Ctx) -> Report {
    let mut cases = Vec::new();
    for spec in panels_for(ctx) {
        let syms = syms(spec);
        cases.push(Case { spec, prefix: vec![], target: None, ctx_tag: "ctor", busy: false });
        cases.push(Case { spec, prefix: vec![], target: None, ctx_tag: "ctor", busy: true });
        // state-changing predecessors used as second context
        let mut preds: Vec<Vec<Op>> = Vec::new();
        if let Some(p) = syms.iter().find(|s| s.iter().any(|o| matches!(o.k, K::UpdatePartial | K::PartialOld | K::UpdateOld | K::UpdatePartial2))) {
            preds.push(p.clone());
        }
        preds.push(vec![Op::arg(K::SetBg, 0)]);
        if spec.has(K::SetRefresh) {
            preds.push(vec![Op::arg(K::SetRefresh, 2)]);
        } else if spec.lut == LutKind::FullQuick {
            preds.push(vec![Op::arg(K::SetLut, 2)]);
        }
        // buffers of another length than the frame where the driver accepts them (a driver that pads or
        // clamps must stay fail-stop on that path too); skipped by the dry run where the driver rejects them
        for k in [K::UpdateFrame, K::UpdateAndDisplay] {
            if let Some(e) = spec.full_entry(k) {
                let full = spec.entry_buf_len(e);
                let row = ((spec.w + 7) / 8) as usize;
                for len in [full / 2, full.saturating_sub(row), full + row] {
                    if len > 0 && len != full {
                        cases.push(Case { spec, prefix: vec![], target: Some(Op::img(k, Img::Coded { salt: 0xC04 + len as u32, len })), ctx_tag: "other-length", busy: false });
                    }
                }
            }
        }
        for s in &syms {
            for cut in 0..s.len() {
                let prefix: Vec<Op> = s[..cut].to_vec();
                let target = s[cut].clone();
                cases.push(Case { spec, prefix: prefix.clone(), target: Some(target.clone()), ctx_tag: "fresh", busy: false });
                // the same on a busy panel; behind a display call as well, so that the target starts while the
                // panel is still busy where the driver's display call returns early
                cases.push(Case { spec, prefix: prefix.clone(), target: Some(target.clone()), ctx_tag: "fresh", busy: true });
                if cut == 0 && !matches!(target.k, K::WakeUp) {
                    let mut pf = vec![Op::new(K::Display)];
                    pf.extend(prefix.clone());
                    cases.push(Case { spec, prefix: pf, target: Some(target.clone()), ctx_tag: "after-display", busy: true });
                }
                for p in &preds {
                    // keep the protocol grammar: 2in13_v2 partial update is not legal in quick mode
                    if spec.name == "epd2in13_v2" && p.iter().any(|o| o.k == K::SetRefresh) && target.k == K::UpdatePartial {
                        continue;
                    }
                    let mut pf = p.clone();
                    pf.extend(prefix.clone());
                    cases.push(Case { spec, prefix: pf, target: Some(target.clone()), ctx_tag: "after-predecessor", busy: false });
                }
            }
        }
    }
    let variant = ctx.variant.clone();
    let thorough = ctx.tier_thorough;
    let seed = ctx.seed;
    let mut out = par_run(&cases, ctx.threads, |_, c, rep| run_case(c, &variant, thorough, seed, rep));
    if ctx.variant == "v3" && ctx.only_panel.as_deref().map(|p| p == "epd12in48b_v2").unwrap_or(true) {
        let mut r = Report::new();
        crate::props::p12checks::c04(&mut r, thorough, seed);
        out.merge(r);
    }
    out
}
