//! C06 — partial updates program exactly the requested window and fill it exactly once.
use crate::json::J;
use crate::model::{Ctrl, Family, Plane};
use crate::ops::*;
use crate::panels::*;
use crate::props::common::*;
use crate::prng::{hash_str, mix64, Rng};
use crate::report::{par_run, Failure, Report};
use crate::Ctx;

fn preload(chip: &mut Ctrl) {
    for (pi, pl) in chip.planes.iter_mut().enumerate() {
        for (i, b) in pl.data.iter_mut().enumerate() {
            *b = (mix64(((i as u64) << 8) ^ pi as u64 ^ 0xC06) >> 16) as u8;
        }
    }
}

fn diff_tag(d: i64, unit: &str) -> String {
    match d {
        1 => format!("+1 {}", unit),
        -1 => format!("-1 {}", unit),
        _ => format!("other-{}-offset", unit),
    }
}

/// input-region tags; only the axis the failing rule is about (both for panics)
fn region_tags(spec: &Spec, w: &Win, class: &str) -> Vec<String> {
    let mut t = Vec::new();
    let xaxis = class.contains("-x-") || class == "panic";
    let yaxis = class.contains("-y-") || class == "panic";
    if xaxis && spec.w > 256 {
        if w.x >= 256 {
            t.push("x>=256".to_string());
        } else if w.x + w.w > 256 {
            t.push("xend>=256".to_string());
        }
    }
    if yaxis && spec.h > 256 {
        if w.y >= 256 {
            t.push("y>=256".to_string());
        } else if w.y + w.h > 256 {
            t.push("yend>=256".to_string());
        }
    }
    t
}

/// check one plane against "old content with the window replaced by `want` (or a uniform fill)"
fn check_plane(spec: &Spec, pl: &Plane, old: &[u8], w: &Win, want: Option<&[u8]>, bpp: u32) -> Option<(&'static str, String)> {
    let prb = pl.row_bytes as usize;
    let wxb = (w.x * bpp / 8) as usize;
    let wwb = (w.w * bpp / 8) as usize;
    let mut fillv: Option<u8> = None;
    // inside
    for r in 0..w.h as usize {
        let ry = (spec.row_map)(w.y + r as u32) as usize;
        for c in 0..wwb {
            let i = ry * prb + wxb + c;
            if pl.wc[i] != 1 {
                return Some((if pl.wc[i] == 0 { "short-data" } else { "inside-window-differs" }, format!("window row {} byte {} written {} times", r, c, pl.wc[i])));
            }
            match want {
                Some(wd) => {
                    if pl.data[i] != wd[r * wwb + c] {
                        return Some(("inside-window-differs", format!("window row {} byte {} holds {:02X}, buffer has {:02X}", r, c, pl.data[i], wd[r * wwb + c])));
                    }
                }
                None => match fillv {
                    None => fillv = Some(pl.data[i]),
                    Some(v) => {
                        if pl.data[i] != v {
                            return Some(("inside-window-differs", format!("fill not uniform at window row {} byte {}", r, c)));
                        }
                    }
                },
            }
        }
    }
    // outside
    let mut inside = vec![false; pl.data.len()];
    for r in 0..w.h as usize {
        let ry = (spec.row_map)(w.y + r as u32) as usize;
        for c in 0..wwb {
            inside[ry * prb + wxb + c] = true;
        }
    }
    for i in 0..pl.data.len() {
        if !inside[i] && (pl.wc[i] != 0 || pl.data[i] != old[i]) {
            return Some(("outside-window-changed", format!("RAM byte {} (row {}, col {}) outside the window was written", i, i / prb, i % prb)));
        }
    }
    None
}

struct Case {
    spec: &'static Spec,
    pe: PartialEntry,
    win: Win,
    salt: u32,
    /// protocol-respecting predecessor symbol executed before the call under test (context)
    pred: Option<usize>,
    /// context run on a panel that is busy for three polls after every busy-raising command and does
    /// not latch commands received while BUSY is asserted
    busy: bool,
    /// the protocol predecessor of the entry point (update_partial_old_frame before ..._new_frame) is made with
    /// this other window: the call under test must program its own window, not inherit the earlier one
    old_win: Option<Win>,
}

fn check_one(c: &Case, variant: &str, rep: &mut Report) {
    let spec = c.spec;
    let pe = &c.pe;
    let w = c.win;
    rep.eval(spec.name);
    let mut rig = if c.busy {
        match Rig::new(
            spec,
            |b| {
                b.busy_mode = crate::hal::BusyMode::Physical;
                b.chips[0].busy.default_d = 3;
            },
            None,
            false,
        ) {
            Ok(r) => {
                r.board.borrow_mut().chips[0].drop_while_busy = true;
                r
            }
            Err(_) => {
                rep.count("prefix_failed", 1);
                return;
            }
        }
    } else {
        Rig::simple(spec)
    };
    let mut ops: Vec<Op> = Vec::new();
    let mut ctx_tag: Option<String> = None;
    if let Some(pi) = c.pred {
        let syms = syms(spec);
        ops.extend(syms[pi].iter().cloned());
        ctx_tag = Some(format!("after:{}{}", sym_kinds(&syms, &[pi]), if c.busy { ",panel-busy" } else { "" }));
    }
    if spec.name == "epd2in9b_v4" {
        // documented protocol: base image first
        ops.push(Op::img2(K::UpdateAndDisplayBase, frame_img(spec, K::UpdateFrame, 31), Img::None));
    }
    if let Some(k) = pe.after {
        ops.push(partial_op(spec, k, c.old_win.unwrap_or(w), c.salt ^ 0x1111));
        if c.old_win.is_some() {
            ctx_tag = Some(match ctx_tag {
                Some(t) => format!("{},other-old-window", t),
                None => "after:other-old-window".to_string(),
            });
        }
    }
    for o in &ops {
        if !rig.apply(o).is_ok() {
            rep.count("prefix_failed", 1);
            rep.note(&format!("protocol prefix failed (judged by its own case): {} {}", spec.name, o.short()));
            return;
        }
    }
    preload(rig.board.borrow_mut().chip_mut());
    let old: Vec<Vec<u8>> = rig.board.borrow().chip().planes.iter().map(|p| p.data.clone()).collect();
    rig.board.borrow_mut().chip_mut().mark();
    let (cur_before, n_before) = {
        let b = rig.board.borrow();
        let ch = b.chip();
        (ch.cur, ch.cur.map(|i| ch.cmds[i].nparams).unwrap_or(0))
    };
    let an0 = rig.board.borrow().chip().anomalies.len();
    let c0 = rig.board.borrow().chip().cmds.len();
    let op = partial_op(spec, pe.k, w, c.salt);
    let buf = op.img.make();
    let out = rig.apply(&op);
    ops.push(op.clone());
    let case = case_json(spec, variant, &ops);
    let mk = |class: &str, mut tags: Vec<String>, detail: String| {
        if tags.iter().any(|t| t.starts_with("other-")) || class == "panic" {
            tags.extend(region_tags(spec, &w, class));
        }
        if let Some(t) = &ctx_tag {
            // only failures that do NOT occur on a fresh driver carry the context tag (decided below)
            tags.push(t.clone());
        }
        Failure { panel: spec.name.into(), entry: pe.k.name().into(), class: class.into(), tags, detail: format!("window ({},{},{},{}): {}", w.x, w.y, w.w, w.h, detail), case: case.clone() }
    };
    rep.nontrivial(hash_str(&format!("{}|{}|{:?}|{:?}", spec.name, pe.k.name(), w, c.pred)));
    if !out.is_ok() {
        let mut tags = vec![];
        if let Outcome::Panic(m) = &out {
            // stable part of the panic message (location)
            tags.push(m.split('@').last().unwrap_or("").trim().to_string());
        }
        rep.fail(mk("panic", tags, format!("call returned {}", out.short())));
        return;
    }
    let b = rig.board.borrow();
    let chip = b.chip();
    rep.count("window_bytes_checked", w.bytes() as u64);
    rep.count("ram_bytes_compared", (chip.planes[0].data.len() + chip.planes[1].data.len()) as u64);
    // (4a) stray data appended to a command of an earlier call
    if let Some(ci) = cur_before {
        if chip.cmds[ci].nparams > n_before {
            rep.fail(mk("stray-window-bytes", vec![format!("after={:02X}", chip.cmds[ci].op)], format!("{} bytes sent with D/C high before any command of this call: they extend command {:02X} of the previous call", chip.cmds[ci].nparams - n_before, chip.cmds[ci].op)));
            return;
        }
    }
    // (1) decoded window
    let bppw = if pe.plane == 0 { spec.bpp1 } else { spec.bpp2 };
    match spec.family {
        Family::Ssd => {
            let Some(wp) = chip.windows_programmed.iter().rev().find(|p| p.0 == chip.opidx) else {
                rep.fail(mk("window-x-start", vec!["no-ram-write".into()], "no RAM write command in the call".into()));
                return;
            };
            let (_, xs, xe, ys, ye, xc, yc, _) = *wp;
            let want = (w.x / 8, (w.x + w.w) / 8 - 1, w.y, w.y + w.h - 1);
            let checks = [("window-x-start", xs as i64 - want.0 as i64, "byte"), ("window-x-end", xe as i64 - want.1 as i64, "byte"), ("window-y-start", ys as i64 - want.2 as i64, "row"), ("window-y-end", ye as i64 - want.3 as i64, "row")];
            for (class, d, unit) in checks {
                if d != 0 {
                    rep.fail(mk(class, vec![diff_tag(d, unit)], format!("controller window is X bytes {}..{} Y {}..{}, requested X {}..{} Y {}..{}", xs, xe, ys, ye, want.0, want.1, want.2, want.3)));
                    return;
                }
            }
            if xc != want.0 || yc != want.2 {
                rep.fail(mk("counter-not-at-origin", vec![], format!("address counter at ({},{}) when data starts, window origin is ({},{})", xc, yc, want.0, want.2)));
                return;
            }
        }
        _ => {
            let wins: Vec<_> = chip.uc_windows.iter().filter(|u| u.0 == chip.opidx && u.1 != 0x16).collect();
            // for pair entries the window command belongs to the first call of the pair
            let wins: Vec<_> = if wins.is_empty() && pe.after.is_some() { chip.uc_windows.iter().rev().take(1).collect() } else { wins };
            let Some(u) = wins.last() else {
                rep.fail(mk("window-x-start", vec!["no-window-command".into()], "no complete window block reached the controller".into()));
                return;
            };
            let (_, _, x, y, ww, hh) = **u;
            let checks = [
                ("window-x-start", x as i64 - w.x as i64, "px"),
                ("window-x-end", (x as i64 + ww as i64) - (w.x as i64 + w.w as i64), "px"),
                ("window-y-start", y as i64 - w.y as i64, "row"),
                ("window-y-end", (y as i64 + hh as i64) - (w.y as i64 + w.h as i64), "row"),
            ];
            for (class, d, unit) in checks {
                if d != 0 {
                    let tag = if unit == "px" && d % 8 == 0 && d.abs() == 8 { diff_tag(d / 8, "byte") } else { diff_tag(d, unit) };
                    rep.fail(mk(class, vec![tag], format!("controller decoded window x={} y={} w={} h={}", x, y, ww as i32, hh as i32)));
                    return;
                }
            }
        }
    }
    // (4b) anomalies recorded by the model during the call
    for a in &chip.anomalies[an0..] {
        let class = match a.kind {
            "excess-data" => "excess-data",
            "short-data" => "short-data",
            "write-outside-ram" | "counter-outside-window" => "outside-window-changed",
            "data-without-command" => "stray-window-bytes",
            _ => continue,
        };
        rep.fail(mk(class, vec![format!("model:{}", a.kind)], format!("controller model recorded {} on command {:02X}", a.kind, a.op)));
        return;
    }
    // block arity of window commands inside the call
    for cmd in &chip.cmds[c0..] {
        if let Some(ar) = crate::proto::block_arity(spec, cmd.op) {
            if !ar.contains(&cmd.nparams) {
                rep.fail(mk("stray-window-bytes", vec![format!("block={:02X}", cmd.op)], format!("command {:02X} carries {} parameter bytes (block is {:?})", cmd.op, cmd.nparams, ar)));
                return;
            }
        }
    }
    // (2)(3) memory
    let enc_buf = encode(pe.enc, &buf);
    let (want0, want1): (Option<Vec<u8>>, Option<Vec<u8>>) = if pe.two_planes {
        let half = enc_buf.len() / 2;
        (Some(enc_buf[..half].to_vec()), Some(enc_buf[half..].to_vec()))
    } else if pe.is_fill {
        (None, None)
    } else if pe.plane == 0 {
        (Some(enc_buf.clone()), None)
    } else {
        (None, Some(enc_buf.clone()))
    };
    let nplanes = if spec.family == Family::Acep { 1 } else { 2 };
    for p in 0..nplanes {
        let pl = &chip.planes[p];
        let primary = p == pe.plane || pe.two_planes || pe.is_fill;
        let touched = pl.writes > 0 || pl.pattern_fills > 0;
        if !primary && !touched {
            // other plane untouched: must be byte-identical
            if pl.data != old[p] {
                rep.fail(mk("outside-window-changed", vec![format!("plane={}", p)], "untouched plane changed".into()));
                return;
            }
            continue;
        }
        let want: Option<&[u8]> = if primary {
            if p == 0 {
                want0.as_deref()
            } else {
                want1.as_deref()
            }
        } else {
            None
        };
        let bpp = if p == 0 { spec.bpp1 } else { spec.bpp2 };
        let bpp = if spec.family == Family::Ssd { 1 } else { bpp };
        let _ = bppw;
        let mut r = check_plane(spec, pl, &old[p], &w, want, bpp);
        if !primary && r.is_some() {
            // a secondary plane may also receive a copy of the buffer (2in13_v2 writes both RAMs)
            let r2 = check_plane(spec, pl, &old[p], &w, Some(&enc_buf), bpp);
            if r2.is_none() {
                r = None;
            }
        }
        if let Some((class, detail)) = r {
            let mut tags = vec![];
            if !primary {
                tags.push(format!("plane={}", p));
            }
            rep.fail(mk(class, tags, detail));
            return;
        }
    }
    rep.state(hash_str(spec.name) ^ mix64(((w.x as u64) << 48) | ((w.y as u64) << 32) | ((w.w as u64) << 16) | w.h as u64));
    if rep.samples.len() < 10 {
        rep.sample(case.clone().set("verdict", "window exact, filled once, outside unchanged"));
    }
}

/// A failure seen in a context (after a predecessor) is reported with the context tag only when the
/// same call on a fresh driver does not fail the same way; otherwise the fresh case owns it.
fn check(c: &Case, variant: &str, rep: &mut Report) {
    let mut tmp = Report::new();
    check_one(c, variant, &mut tmp);
    if (c.pred.is_some() || c.old_win.is_some()) && !tmp.failures.is_empty() {
        let mut fresh = Report::new();
        // baseline: the fresh call; for a busy context the same predecessor on an always-idle panel
        let fc = Case { spec: c.spec, pe: c.pe, win: c.win, salt: c.salt, pred: if c.busy { c.pred } else { None }, busy: false, old_win: None };
        check_one(&fc, variant, &mut fresh);
        let strip = |f: &Failure| {
            let mut g = f.clone();
            g.tags.retain(|t| !t.starts_with("after:"));
            g.sig()
        };
        let fresh_sigs: Vec<String> = fresh.failures.iter().map(|f| strip(f)).collect();
        let mut keep: Vec<Failure> = tmp.failures.iter().filter(|f| !fresh_sigs.contains(&strip(f))).cloned().collect();
        if let Some(ow) = c.old_win {
            // one stable signature when the call simply inherited the window of the earlier call
            let inherited = format!("controller decoded window x={} y={} w={} h={}", ow.x, ow.y, ow.w, ow.h);
            if keep.iter().any(|f| f.class.starts_with("window-") && f.detail.contains(&inherited)) {
                let mut f = keep[0].clone();
                f.class = "window-inherited".into();
                f.tags = vec!["after:other-old-window".into()];
                f.detail = format!("requested window ({},{},{},{}) but the controller still holds the window ({},{},{},{}) programmed by the preceding {} - the call did not program its own window", c.win.x, c.win.y, c.win.w, c.win.h, ow.x, ow.y, ow.w, ow.h, c.pe.after.map(|k| k.name()).unwrap_or("call"));
                keep = vec![f];
            }
        }
        tmp.failures.clear();
        tmp.fail_counts.clear();
        for f in keep {
            tmp.fail(f);
        }
    }
    rep.merge(tmp);
}

pub fn windows_for(spec: &Spec, thorough: bool, rng: &mut Rng) -> Vec<Win> {
    let wb = w8(spec) / 8;
    let h = spec.h;
    let mut v: Vec<Win> = Vec::new();
    let mut push = |x: u32, y: u32, w: u32, hh: u32, v: &mut Vec<Win>| {
        if w >= 8 && hh >= 1 && x + w <= wb * 8 && y + hh <= h && x % 8 == 0 && w % 8 == 0 {
            let win = Win::new(x, y, w, hh);
            if !v.contains(&win) {
                v.push(win);
            }
        }
    };
    let full_w = wb * 8;
    // edges, single byte, single row, full panel
    push(0, 0, 8, 1, &mut v);
    push(0, 0, 16, 8, &mut v);
    push(full_w - 8, 0, 8, 1, &mut v);
    push(0, h - 1, 8, 1, &mut v);
    push(full_w - 8, h - 1, 8, 1, &mut v);
    push(full_w - 16, h - 8, 16, 8, &mut v);
    push(8, 3, 8, 1, &mut v);
    push(0, 5, full_w, 1, &mut v);
    push(8, 0, 8, h, &mut v);
    push(0, 0, full_w, h, &mut v);
    push(0, 0, full_w, 2, &mut v);
    push(0, 1, 8, 2, &mut v);
    push(16, 5, 24, 7, &mut v);
    // around x = 256 and y = 256
    for (x, w) in [(240u32, 8u32), (240, 16), (248, 8), (248, 16), (256, 8), (256, 16), (264, 8), (248, 24)] {
        for (y, hh) in [(0u32, 2u32), (250, 4), (254, 2), (255, 1), (255, 2), (256, 1), (256, 3), (257, 2)] {
            push(x, y, w, hh, &mut v);
            push(8, y, 16, hh, &mut v);
            push(x, 7, w, 3, &mut v);
        }
    }
    let nrand = if thorough { 20000 } else { 300 };
    if thorough {
        if spec.w * spec.h <= 80 * 128 {
            // exhaustive on the smallest panel
            for xb in 0..wb {
                for wwb in 1..=(wb - xb) {
                    for y in 0..h {
                        for hh in 1..=(h - y) {
                            push(xb * 8, y, wwb * 8, hh, &mut v);
                        }
                    }
                }
            }
        } else {
            // every aligned (x,w) x boundary / lattice (y,h)
            let ys: Vec<(u32, u32)> = vec![(0, 1), (0, 2), (1, 1), (h - 1, 1), (h - 2, 2), (0, h), (h / 2, 3), (255.min(h - 2), 2), (h / 3, h / 3)];
            for xb in 0..wb {
                for wwb in 1..=(wb - xb) {
                    for (y, hh) in &ys {
                        push(xb * 8, *y, wwb * 8, *hh, &mut v);
                    }
                }
            }
        }
    }
    for _ in 0..nrand {
        let wwb = rng.range(1, wb as i64) as u32;
        let xb = rng.range(0, (wb - wwb) as i64) as u32;
        let hh = if rng.chance(1, 2) { rng.range(1, 16.min(h) as i64) as u32 } else { rng.range(1, h as i64) as u32 };
        let y = rng.range(0, (h - hh) as i64) as u32;
        push(xb * 8, y, wwb * 8, hh, &mut v);
    }
    v
}

pub fn run(ctx: &Ctx) -> Report {
    let mut cases = Vec::new();
    for spec in panels_for(ctx) {
        let mut rng = Rng::derive(ctx.seed, hash_str(spec.name) ^ 0xC06);
        let wins = windows_for(spec, ctx.tier_thorough, &mut rng);
        // contexts: every symbol of the alphabet that is legal before a partial call
        let syms = syms(spec);
        let preds: Vec<usize> = (0..syms.len()).filter(|i| !syms[*i].iter().any(|o| matches!(o.k, K::Sleep))).collect();
        for pe in spec.partial {
            for (i, w) in wins.iter().enumerate() {
                cases.push(Case { spec, pe: *pe, win: *w, salt: 0x600 + i as u32, pred: None, busy: false, old_win: None });
            }
            if pe.after.is_some() {
                for (i, w) in wins.iter().enumerate().take(if ctx.tier_thorough { 200 } else { 30 }) {
                    let ow = wins[(i * 7 + 5) % wins.len()];
                    if ow != *w {
                        cases.push(Case { spec, pe: *pe, win: *w, salt: 0xD00 + i as u32, pred: None, busy: false, old_win: Some(ow) });
                    }
                }
            }
            // in context: the first windows of the list (edges, single byte/row, seams) per predecessor
            let nctx = if ctx.tier_thorough { 60 } else { 14 };
            for pi in &preds {
                if spec.name == "epd2in13_v2" && syms[*pi].iter().any(|o| o.k == K::SetRefresh && o.arg == 2) {
                    continue; // partial update is only legal in full mode (documented assert)
                }
                for (i, w) in wins.iter().enumerate().take(nctx) {
                    cases.push(Case { spec, pe: *pe, win: *w, salt: 0x900 + i as u32, pred: Some(*pi), busy: false, old_win: None });
                }
                // after a symbol that starts a refresh: also on a panel that is still busy afterwards
                if syms[*pi].iter().any(|o| matches!(o.k, K::Display | K::UpdateAndDisplay | K::DisplayNew | K::UpdateAndDisplayNew | K::DisplayPartial | K::Clear)) {
                    for (i, w) in wins.iter().enumerate().take(nctx) {
                        cases.push(Case { spec, pe: *pe, win: *w, salt: 0xB00 + i as u32, pred: Some(*pi), busy: true, old_win: None });
                    }
                }
            }
        }
    }
    let variant = ctx.variant.clone();
    let mut out = par_run(&cases, ctx.threads, |_, c, rep| check(c, &variant, rep));
    if ctx.variant == "v3" && ctx.only_panel.as_deref().map(|p| p == "epd12in48b_v2").unwrap_or(true) {
        crate::props::p12checks::c06(&mut out, ctx.tier_thorough, ctx.seed);
    }
    out
}
