//! C07 — clear_frame fills every image plane once, uniformly, with the background.
use crate::json::J;
use crate::model::{Ctrl, Family, Plane};
use crate::ops::*;
use crate::panels::*;
use crate::props::c01::{payloads, ram_opcode};
use crate::props::common::*;
use crate::prng::{hash_str, Rng};
use crate::report::{par_run, Failure, Report};
use crate::Ctx;
use std::sync::Arc;

struct Case {
    spec: &'static Spec,
    h: Vec<usize>,
    color: u32,
    /// the colour is selected *before* the history instead of right before the clear ("the colour last
    /// set" must survive whatever the history does, sleep / wake-up included)
    early: bool,
    /// the history and the clear run on a panel that stays busy for this many polls after every busy-raising
    /// command and ignores what it receives meanwhile (a clear right behind a refresh must wait it out)
    busy: Option<u32>,
}

/// the operations of a case and the colour that was set last in them
fn case_ops(syms: &[Sym], h: &[usize], color: u32, early: bool) -> (Vec<Op>, u32) {
    let mut ops = Vec::new();
    if early {
        ops.push(Op::arg(K::SetBg, color));
    }
    ops.extend(flatten(syms, h));
    if !early {
        ops.push(Op::arg(K::SetBg, color));
    }
    let last = ops.iter().rev().find(|o| o.k == K::SetBg).map(|o| o.arg).unwrap_or(color);
    (ops, last)
}

pub fn color_name(spec: &Spec, c: u32) -> String {
    match spec.color {
        ColorKind::Bw => ["Black", "White"][c as usize & 1].to_string(),
        ColorKind::Tri => ["Black", "White", "Chromatic"][(c as usize).min(2)].to_string(),
        ColorKind::Oct => ["Black", "White", "Green", "Blue", "Red", "Yellow", "Orange", "HiZ"][c as usize & 7].to_string(),
    }
}

/// area of the panel inside a model plane: (row bytes used, bits used in a row)
fn plane_area(spec: &Spec, pl: &Plane, plane_idx: usize) -> (usize, usize) {
    let bpp = match spec.family {
        Family::Ssd => 1,
        _ => {
            if plane_idx == 0 {
                spec.bpp1
            } else {
                spec.bpp2
            }
        }
    } as usize;
    let bits = spec.w as usize * bpp;
    ((bits + 7) / 8, bits)
}

/// (class, detail) of the first rule violated by one plane after clear_frame
fn judge_plane(spec: &Spec, pl: &Plane, idx: usize) -> Option<(&'static str, String)> {
    let (rb, _) = plane_area(spec, pl, idx);
    let prb = pl.row_bytes as usize;
    let area = rb * spec.h as usize;
    if pl.pattern_fills > 0 {
        // controller-side fill of the whole plane: must be exactly one, and no host writes on top
        if pl.pattern_fills != 1 || pl.writes != 0 {
            return Some(("plane-written-twice", format!("{} controller-side fills and {} host bytes in one clear", pl.pattern_fills, pl.writes)));
        }
        return None;
    }
    let mut zeros = 0usize;
    let mut multi = 0usize;
    let mut inarea = vec![false; pl.data.len()];
    for y in 0..spec.h {
        let ry = (spec.row_map)(y) as usize;
        for xb in 0..rb {
            let i = ry * prb + xb;
            inarea[i] = true;
            if pl.wc[i] == 0 {
                zeros += 1;
            } else if pl.wc[i] > 1 {
                multi += 1;
            }
        }
    }
    let outside = pl.wc.iter().enumerate().filter(|(i, w)| !inarea[*i] && **w > 0).count();
    if pl.writes as usize > area && (multi > 0 || outside > 0) && pl.writes as usize % area != 0 {
        return Some(("fill-overrun", format!("{} bytes sent for a plane of {} bytes", pl.writes, area)));
    }
    if pl.writes as usize > area && pl.writes as usize % area == 0 && zeros == 0 {
        let k = pl.writes as usize / area;
        if k >= 2 && multi == area {
            if k > 2 {
                return Some(("fill-overrun", format!("{} bytes sent for a plane of {} bytes ({}x)", pl.writes, area, k)));
            }
            return Some(("plane-written-twice", format!("every byte of the plane written {} times", k)));
        }
    }
    if zeros > 0 {
        return Some(("plane-partly-written", format!("{} of {} plane bytes not written ({} bytes sent)", zeros, area, pl.writes)));
    }
    if multi > 0 {
        return Some(("plane-written-twice", format!("{} plane bytes written more than once", multi)));
    }
    if outside > 0 {
        return Some(("fill-overrun", format!("{} RAM bytes outside the panel area written", outside)));
    }
    None
}

fn alias_frame(spec: &Spec, color: u32) -> Vec<u8> {
    let mut d = (spec.display)();
    d.fill(color);
    let e = spec.full_entry(K::UpdateFrame).unwrap();
    match e.buf {
        BufSel::Whole => d.buffer().to_vec(),
        BufSel::Bw => d.bw().to_vec(),
        BufSel::Chr => d.chr().to_vec(),
    }
}

/// compare the visible pixels (padding bits masked) of plane `idx` between two chips
fn visible_diff(spec: &Spec, a: &Ctrl, b: &Ctrl, idx: usize) -> Option<String> {
    let pa = &a.planes[idx];
    let pb = &b.planes[idx];
    let (rb, bits) = plane_area(spec, pa, idx);
    let prb = pa.row_bytes as usize;
    for y in 0..spec.h {
        let ry = (spec.row_map)(y) as usize;
        for xb in 0..rb {
            let i = ry * prb + xb;
            let mut m = 0xFFu8;
            if (xb + 1) * 8 > bits {
                let used = bits - xb * 8;
                m = !(0xFFu8 >> used);
            }
            if (pa.data[i] ^ pb.data[i]) & m != 0 {
                return Some(format!("row {} byte {}: clear_frame left {:02X}, a painted frame leaves {:02X}", y, xb, pa.data[i], pb.data[i]));
            }
        }
    }
    None
}

fn eval(spec: &'static Spec, syms: &[Sym], h: &[usize], color: u32, early: bool, busy: Option<u32>, rep: Option<&mut Report>) -> Result<Vec<(String, Vec<String>, String)>, String> {
    let (ops, color) = case_ops(syms, h, color, early);
    let mut rig = match busy {
        None => Rig::simple(spec),
        Some(d) => {
            let r = Rig::new(
                spec,
                |b| {
                    b.busy_mode = crate::hal::BusyMode::Physical;
                    b.chips[0].busy.default_d = d;
                },
                None,
                false,
            )
            .map_err(|(o, _)| format!("new -> {}", o.short()))?;
            r.board.borrow_mut().chips[0].drop_while_busy = true;
            r
        }
    };
    let mut twin = Rig::simple(spec);
    for o in &ops {
        let out = rig.apply(o);
        if !out.is_ok() {
            return Err(format!("{} -> {}", o.short(), out.short()));
        }
        let _ = twin.apply(o);
    }
    let mut out = Vec::new();
    let cname = color_name(spec, color);
    // accessor
    if rig.panel.bg_index() != color {
        out.push(("accessor-differs".to_string(), vec![format!("bg={}", cname)], format!("background_color() returns index {} after set_background_color({})", rig.panel.bg_index(), cname)));
    }
    rig.board.borrow_mut().chip_mut().mark();
    let o = rig.apply(&Op::new(K::Clear));
    if !o.is_ok() {
        out.push(("panic".to_string(), vec![], format!("clear_frame returned {}", o.short())));
        return Ok(out);
    }
    let frame = alias_frame(spec, color);
    twin.board.borrow_mut().chip_mut().mark();
    let to = twin.apply(&Op::img(K::UpdateFrame, Img::Bytes(Arc::new(frame))));
    let b = rig.board.borrow();
    let chip = b.chip();
    let primary = spec.full_entry(K::UpdateFrame).unwrap().plane;
    let nplanes = if spec.family == Family::Acep { 1 } else { 2 };
    let segs = op_segments(&b.log);
    let (_, s, e) = *segs.last().unwrap();
    let mut touched = 0;
    for p in 0..nplanes {
        let pl = &chip.planes[p];
        if pl.writes == 0 && pl.pattern_fills == 0 {
            continue;
        }
        touched += 1;
        if let Some((class, detail)) = judge_plane(spec, pl, p) {
            out.push((class.to_string(), vec![format!("plane={}", p)], detail));
        }
        // one repeated value on the wire
        for pay in payloads(&b.log[s..e], &b.bytes, ram_opcode(spec, p)) {
            if let Some(f) = pay.first() {
                if pay.iter().any(|x| x != f) {
                    out.push(("fill-not-uniform".to_string(), vec![format!("plane={}", p)], format!("fill of plane {} carries more than one byte value", p)));
                }
            }
        }
    }
    // "each image plane": the planes this driver's clear_frame fills on a freshly constructed driver are
    // the image planes it maintains; no history or setting may make the clear skip one of them
    if touched < nplanes {
        let mut fresh = Rig::simple(spec);
        let _ = fresh.apply(&Op::arg(K::SetBg, color));
        fresh.board.borrow_mut().chip_mut().mark();
        if fresh.apply(&Op::new(K::Clear)).is_ok() {
            let fb = fresh.board.borrow();
            for p in 0..nplanes {
                let here = chip.planes[p].writes > 0 || chip.planes[p].pattern_fills > 0;
                let there = fb.chip().planes[p].writes > 0 || fb.chip().planes[p].pattern_fills > 0;
                if there && !here && p != primary {
                    out.push(("plane-not-written".to_string(), vec![format!("plane={}", p)], format!("clear_frame fills plane {} on a freshly constructed driver but left it untouched here", p)));
                }
            }
        }
    }
    if chip.planes[primary].writes == 0 && chip.planes[primary].pattern_fills == 0 {
        out.push(("primary-not-written".to_string(), vec![], format!("clear_frame did not write the primary plane {} ({} planes touched)", primary, touched)));
    } else if to.is_ok() {
        let tb = twin.board.borrow();
        if let Some(d) = visible_diff(spec, chip, tb.chip(), primary) {
            out.push(("primary-≠-uniform-background".to_string(), vec![format!("bg={}", cname)], d));
        }
    }
    if let Some(rep) = rep {
        rep.count("planes_judged", touched as u64);
        rep.count("fill_bytes_observed", chip.planes[0].writes + chip.planes[1].writes);
        rep.count("pattern_fills_observed", (chip.planes[0].pattern_fills + chip.planes[1].pattern_fills) as u64);
        rep.state(hash_str(spec.name) ^ chip.state_hash() ^ color as u64);
    }
    Ok(out)
}

pub fn run(ctx: &Ctx) -> Report {
    let mut cases = Vec::new();
    let mut rng = Rng::derive(ctx.seed, 0xC07);
    for spec in panels_for(ctx) {
        let syms = syms_shapes(spec);
        // exhaustive length 2 also in the quick tier except on the largest panels; thorough adds length 3 on the small ones
        let bigp = spec.w * spec.h > 300 * 400;
        let smallp = spec.w * spec.h <= 200 * 200;
        let maxlen = if ctx.tier_thorough { if smallp { 3 } else { 2 } } else if bigp { 1 } else { 2 };
        let has_setbg = |h: &[usize]| h.iter().any(|i| syms[*i].iter().any(|o| o.k == K::SetBg));
        for color in 0..spec.color.count() {
            cases.push(Case { spec, h: vec![], color, early: false, busy: None });
            for n in 1..=maxlen {
                for h in histories(spec, &syms, n) {
                    cases.push(Case { spec, h: h.clone(), color, early: false, busy: None });
                    if n == 1 {
                        for d in [3u32, 10_007] {
                            cases.push(Case { spec, h: h.clone(), color, early: false, busy: Some(d) });
                        }
                    }
                    // (a history that selects a colour itself decides the colour of the clear: that is the
                    // other ordering with that colour)
                    if !has_setbg(&h) {
                        cases.push(Case { spec, h, color, early: true, busy: None });
                    }
                }
            }
            // seeded random walks over the alphabet (longer than the exhaustive part)
            let big = spec.w * spec.h > 300 * 400;
            let nwalk = match (ctx.tier_thorough, big) {
                (false, true) => 15,
                (false, false) => 80,
                (true, true) => 300,
                (true, false) => 3000,
            };
            for j in 0..nwalk {
                let n = if ctx.tier_thorough { 3 + j % 6 } else { 2 + j % 3 };
                let h = random_history(spec, &syms, n, &mut rng);
                let early = j % 2 == 1 && !has_setbg(&h);
                cases.push(Case { spec, h, color, early, busy: None });
            }
        }
    }
    let variant = ctx.variant.clone();
    par_run(&cases, ctx.threads, |_, c, rep| {
        let spec = c.spec;
        let syms = syms_shapes(spec);
        rep.eval(spec.name);
        let (mut ops, _) = case_ops(&syms, &c.h, c.color, c.early);
        ops.push(Op::new(K::Clear));
        match eval(spec, &syms, &c.h, c.color, c.early, c.busy, Some(rep)) {
            Err(e) => {
                rep.count("histories_with_failing_op", 1);
                rep.note(&format!("history op failed (not judged here): {} {}", spec.name, e));
            }
            Ok(fails) => {
                rep.nontrivial(hash_str(&format!("{}|{}|{}|{}|{:?}", spec.name, ops_short(&ops), c.color, c.early, c.busy)));
                if c.busy.is_some() {
                    rep.count("clears_on_busy_command_ignoring_panel", 1);
                }
                if c.early {
                    rep.count("colour_selected_before_history", 1);
                }
                if fails.is_empty() && rep.samples.len() < 8 && c.h.len() == 1 {
                    rep.sample(case_json(spec, &variant, &ops));
                }
                for (class, tags, detail) in fails {
                    let sig0 = format!("{}|{}", class, tags.join(","));
                    let min = minimize_history(&c.h, &sig0, &|t: &[usize]| match eval(spec, &syms, t, c.color, c.early, c.busy, None) {
                        Ok(v) => v.iter().map(|(cl, tg, _)| format!("{}|{}", cl, tg.join(","))).find(|s| *s == sig0),
                        _ => None,
                    });
                    let mut tags = tags;
                    if c.busy.is_some() {
                        // reported only when the same case on an always-idle panel does not show it
                        let idle = eval(spec, &syms, &c.h, c.color, c.early, None, None).map(|v| v.iter().any(|(cl, tg, _)| format!("{}|{}", cl, tg.join(",")) == sig0)).unwrap_or(false);
                        if idle {
                            continue;
                        }
                        tags.push("panel-busy".into());
                    }
                    if !min.is_empty() {
                        tags.push(format!("hist:{}", sym_kinds(&syms, &min)));
                    }
                    if c.early && !min.is_empty() {
                        // does it need the colour to be selected before the history?
                        let late = eval(spec, &syms, &min, c.color, false, c.busy, None).map(|v| v.iter().any(|(cl, tg, _)| format!("{}|{}", cl, tg.join(",")) == sig0)).unwrap_or(false);
                        if !late {
                            tags.push("bg-set-first".into());
                        }
                    }
                    let early_min = c.early && tags.iter().any(|t| t == "bg-set-first");
                    let (mut min_ops, _) = case_ops(&syms, &min, c.color, early_min);
                    min_ops.push(Op::new(K::Clear));
                    rep.fail(Failure { panel: spec.name.into(), entry: "clear_frame".into(), class, tags, detail: format!("{} | minimal history: {}", detail, ops_short(&min_ops)), case: case_json(spec, &variant, &min_ops) });
                }
            }
        }
    })
}
