//! C08 — sleep enters the controller's deep-sleep state; wake_up resets and restores it.
use crate::hal::Ev;
use crate::json::J;
use crate::model::{Ctrl, Family};
use crate::ops::*;
use crate::panels::*;
use crate::props::c11::check_segment;
use crate::props::common::*;
use crate::prng::{hash_str, Rng};
use crate::report::{par_run, Failure, Report};
use crate::Ctx;
use std::collections::BTreeMap;

fn is_setting(o: &Op) -> bool {
    matches!(o.k, K::SetBg | K::SetLut | K::SetRefresh)
}

fn apply_all_ok(rig: &mut Rig, ops: &[Op]) -> Result<(), String> {
    for o in ops {
        let out = rig.apply(o);
        if !out.is_ok() {
            return Err(format!("{} -> {}", o.short(), out.short()));
        }
    }
    Ok(())
}

/// clause 1: sleep signature
fn check_sleep(spec: &Spec, rig: &Rig, c0: usize) -> Vec<(String, Vec<String>, String)> {
    let mut out = Vec::new();
    let b = rig.board.borrow();
    let chip = b.chip();
    let cmds = &chip.cmds[c0..];
    let Some(last) = cmds.last() else {
        out.push(("sleep-signature".to_string(), vec!["nothing-sent".into()], "sleep() sent nothing".into()));
        return out;
    };
    let ok = match spec.sleep_sig {
        SleepSig::Uc => last.op == 0x07 && last.nparams == 1 && last.params[0] == 0xA5,
        SleepSig::Ssd => last.op == 0x10 && last.nparams == 1 && (last.params[0] & 0x03) != 0,
    };
    if !ok {
        // was the deep-sleep command sent earlier in the call with something after it?
        let pos = cmds.iter().position(|c| match spec.sleep_sig {
            SleepSig::Uc => c.op == 0x07 && c.nparams >= 1 && c.params[0] == 0xA5,
            SleepSig::Ssd => c.op == 0x10 && c.nparams >= 1 && (c.params[0] & 0x03) != 0,
        });
        if pos.is_some() {
            out.push(("traffic-after-sleep-cmd".to_string(), vec![format!("last={:02X}", last.op)], format!("deep-sleep command is followed by {:02X} [{}]", last.op, hex(&last.params))));
        } else {
            out.push(("sleep-signature".to_string(), vec![format!("last={:02X}:{}", last.op, hex(&last.params))], format!("last command of sleep() is {:02X} [{}], not the {:?} deep-sleep signature", last.op, hex(&last.params), spec.sleep_sig)));
        }
    }
    if !chip.asleep && ok {
        out.push(("sleep-signature".to_string(), vec!["model-not-asleep".into()], "signature sent but controller model did not enter deep sleep".into()));
    }
    out
}

fn diff_snapshots(a: &BTreeMap<u8, Vec<u8>>, b: &BTreeMap<u8, Vec<u8>>) -> Option<(u8, String)> {
    for (k, v) in a {
        match b.get(k) {
            None => return Some((*k, format!("register {:02X} = [{}] after wake_up, not written by the reference", k, hex(v)))),
            Some(w) if w != v => return Some((*k, format!("register {:02X} = [{}] after wake_up, reference has [{}]", k, hex(v), hex(w)))),
            _ => {}
        }
    }
    for (k, w) in b {
        if !a.contains_key(k) {
            return Some((*k, format!("register {:02X} = [{}] in the reference is not written by wake_up", k, hex(w))));
        }
    }
    None
}

/// effect of the suffix on memory: per plane (write-count map, data where written)
fn effect(chip: &Ctrl) -> Vec<(Vec<u16>, Vec<u8>)> {
    chip.planes.iter().map(|p| (p.wc.clone(), p.data.iter().zip(p.wc.iter()).map(|(d, w)| if *w > 0 { *d } else { 0 }).collect())).collect()
}

/// [P; (sleep; wake_up) x cycles; S]  (cycles == 0 with `bare_wake` means wake_up without sleep)
fn eval(spec: &'static Spec, syms: &[Sym], p: &[usize], s: &[usize], cycles: u32, bare_wake: bool, rep: Option<&mut Report>) -> Result<Vec<(String, String, Vec<String>, String)>, String> {
    let pre = flatten(syms, p);
    let suf = flatten(syms, s);
    let mut out: Vec<(String, String, Vec<String>, String)> = Vec::new(); // entry, class, tags, detail
    let mut rig = Rig::simple(spec);
    apply_all_ok(&mut rig, &pre)?;
    let mut resets_seen = 0u64;
    let n = if bare_wake { 1 } else { cycles };
    for _ in 0..n {
        if !bare_wake {
            let c0 = rig.board.borrow().chip().cmds.len();
            let o = rig.apply(&Op::new(K::Sleep));
            if !o.is_ok() {
                return Err(format!("sleep -> {}", o.short()));
            }
            for (class, tags, detail) in check_sleep(spec, &rig, c0) {
                out.push(("sleep".into(), class, tags, detail));
            }
        }
        let r0 = rig.board.borrow().chip().resets;
        rig.board.borrow_mut().chip_mut().mark();
        let o = rig.apply(&Op::new(K::WakeUp));
        if !o.is_ok() {
            return Err(format!("wake_up -> {}", o.short()));
        }
        // a plane that wake_up itself rewrites as a whole (initialisation fill) must come out as construction
        // leaves it - compared with a freshly constructed driver, not with another run of the same wake_up
        {
            let b = rig.board.borrow();
            let fresh = Rig::simple(spec);
            let fb = fresh.board.borrow();
            for (pi, pl) in b.chip().planes.iter().enumerate() {
                let whole = pl.pattern_fills > 0 || (pl.writes > 0 && pl.wc.iter().all(|w| *w > 0));
                if whole && pl.data != fb.chip().planes[pi].data {
                    let i = pl.data.iter().zip(fb.chip().planes[pi].data.iter()).position(|(a, c)| a != c).unwrap_or(0);
                    out.push(("wake_up".into(), "post-wake-memory-differs".into(), vec![format!("plane={}", pi), "init-fill".into()], format!("wake_up rewrites plane {} as a whole and leaves {:02X} at byte {}, construction leaves {:02X}", pi, pl.data[i], i, fb.chip().planes[pi].data[i])));
                }
            }
        }
        let b = rig.board.borrow();
        if b.chip().resets == r0 {
            out.push(("wake_up".into(), "no-reset-on-wake".into(), vec![], "wake_up() did not pulse RST".into()));
        } else {
            resets_seen += 1;
            let segs = op_segments(&b.log);
            let (_, st, en) = *segs.last().unwrap();
            for (class, detail) in check_segment(&b.log[st..en], true) {
                out.push(("wake_up".into(), "no-reset-on-wake".into(), vec![class.to_string()], detail));
            }
        }
        if b.chip().asleep {
            out.push(("wake_up".into(), "no-reset-on-wake".into(), vec!["still-asleep".into()], "controller still in deep sleep after wake_up()".into()));
        }
    }
    // reference: fresh driver + the settings ops of P (+ a bare wake_up when P changes settings)
    let settings: Vec<Op> = pre.iter().filter(|o| is_setting(o)).cloned().collect();
    let mut refrig = Rig::simple(spec);
    // registers a settings call programs *immediately* (it establishes them for the setting it
    // stores): wake_up must establish them again for that setting, not leave the reset default.
    // Only the last call of each kind is in force; parameter-less trigger commands are not registers.
    let mut established: Vec<(u8, Vec<u8>)> = Vec::new();
    for (i, o) in settings.iter().enumerate() {
        let before = refrig.board.borrow().chip().reg_snapshot();
        apply_all_ok(&mut refrig, std::slice::from_ref(o))?;
        let last_of_kind = !settings[i + 1..].iter().any(|p| p.k == o.k);
        if last_of_kind {
            let after = refrig.board.borrow().chip().reg_snapshot();
            for (k, v) in after.iter() {
                if !v.is_empty() && before.get(k) != Some(v) {
                    established.retain(|e| e.0 != *k);
                    established.push((*k, v.clone()));
                }
            }
        } else {
            // a later call of the same kind overrides whatever this one established
            let after = refrig.board.borrow().chip().reg_snapshot();
            established.retain(|e| after.get(&e.0) == Some(&e.1));
        }
    }
    // registers overwritten by a later settings call of another kind are no longer established
    {
        let fin = refrig.board.borrow().chip().reg_snapshot();
        established.retain(|e| fin.get(&e.0) == Some(&e.1));
    }
    let snap_ref = if settings.is_empty() {
        refrig.board.borrow().chip().reg_snapshot()
    } else {
        // settings live in the driver: the construction-equivalent state is reached by re-initialising
        let o = refrig.apply(&Op::new(K::WakeUp));
        if !o.is_ok() {
            return Err(format!("reference wake_up -> {}", o.short()));
        }
        refrig.board.borrow().chip().reg_snapshot()
    };
    let snap = rig.board.borrow().chip().reg_snapshot();
    // setting-derived registers: registers whose value after ordinary use (full update, clear,
    // display) differs between the driver with these settings and a driver with default settings.
    // Where wake_up programs such a register at all, it must program the value of the settings in
    // force ("as construction does for the driver's current settings"), not a fixed one.
    // (register, value with the settings, value with default settings)
    let mut derived: Vec<(u8, Vec<u8>, Vec<u8>)> = Vec::new();
    if !settings.is_empty() {
        let probes = [frame_op(spec, K::UpdateFrame, 0xC08), Op::new(K::Clear), Op::new(K::Display)];
        let mut with = Rig::simple(spec);
        let mut without = Rig::simple(spec);
        if apply_all_ok(&mut with, &settings).is_ok() && apply_all_ok(&mut with, &probes).is_ok() && apply_all_ok(&mut without, &probes).is_ok() {
            let a = with.board.borrow().chip().reg_snapshot();
            let b = without.board.borrow().chip().reg_snapshot();
            for (k, v) in a.iter() {
                if !v.is_empty() && b.get(k).map(|w| w != v).unwrap_or(false) {
                    derived.push((*k, v.clone(), b.get(k).cloned().unwrap_or_default()));
                }
            }
        }
    }
    if let Some((op, d)) = diff_snapshots(&snap, &snap_ref) {
        out.push(("wake_up".into(), "register-snapshot-differs".into(), vec![format!("reg={:02X}", op)], d));
    } else {
        for (k, v) in &established {
            if snap.get(k) != Some(v) {
                out.push((
                    "wake_up".into(),
                    "register-snapshot-differs".into(),
                    vec![format!("reg={:02X}", k), "established-by-setting".into()],
                    format!("register {:02X} = [{}] was established by the settings call(s) [{}] and is {} after wake_up", k, hex(v), ops_short(&settings), snap.get(k).map(|x| format!("[{}]", hex(x))).unwrap_or("not written".into())),
                ));
                break;
            }
        }
        for (k, v, dflt) in &derived {
            if let Some(got) = snap.get(k) {
                // judged only where wake_up programs exactly the default-settings value: a register that
                // is also used as a per-operation sequencing byte (SSD 0x22) legitimately holds other values
                if got != v && got == dflt && !established.iter().any(|e| e.0 == *k) {
                    out.push((
                        "wake_up".into(),
                        "register-snapshot-differs".into(),
                        vec![format!("reg={:02X}", k), "setting-derived".into()],
                        format!("register {:02X} follows the settings call(s) [{}] in ordinary use ([{}] instead of the default-settings value [{}]) but wake_up programs the default-settings value", k, ops_short(&settings), hex(v), hex(got)),
                    ));
                    break;
                }
            }
        }
    }
    // clause 3: the suffix has the same effect on memory
    if !suf.is_empty() {
        rig.board.borrow_mut().chip_mut().mark();
        refrig.board.borrow_mut().chip_mut().mark();
        let r1 = apply_all_ok(&mut rig, &suf);
        let r2 = apply_all_ok(&mut refrig, &suf);
        match (r1, r2) {
            (Ok(()), Ok(())) => {
                let ea = effect(rig.board.borrow().chip());
                let eb = effect(refrig.board.borrow().chip());
                if ea != eb {
                    let which = if ea[0] != eb[0] { 0 } else { 1 };
                    out.push(("wake_up".into(), "post-wake-memory-differs".into(), vec![format!("plane={}", which)], format!("suffix [{}] leaves plane {} different from the same suffix after construction", ops_short(&suf), which)));
                }
                // the suffix must also leave the controller configured the same way (a driver flag that
                // survived the sleep makes a later call skip its own re-configuration)
                let ra = rig.board.borrow().chip().reg_snapshot();
                let rb = refrig.board.borrow().chip().reg_snapshot();
                if let Some((op, d)) = diff_snapshots(&ra, &rb) {
                    out.push(("wake_up".into(), "post-wake-registers-differ".into(), vec![format!("reg={:02X}", op)], format!("after the suffix [{}]: {} (reference = the same suffix after construction)", ops_short(&suf), d.replace("after wake_up", "here"))));
                } else {
                    let (pa, pb) = (rig.board.borrow().chip().power, refrig.board.borrow().chip().power);
                    if pa != pb {
                        out.push(("wake_up".into(), "post-wake-registers-differ".into(), vec!["power".into()], format!("after the suffix [{}] the controller is {:?}, {:?} after the same suffix following construction", ops_short(&suf), pa, pb)));
                    }
                }
            }
            (Err(e), Ok(())) => out.push(("wake_up".into(), "post-wake-memory-differs".into(), vec!["suffix-fails".into()], format!("suffix fails after wake_up but not after construction: {}", e))),
            (_, Err(e)) => return Err(e),
        }
    }
    if let Some(rep) = rep {
        rep.count("reset_pulses_checked", resets_seen);
        rep.count("register_snapshots_compared", 1);
        rep.count("registers_in_snapshot", snap.len() as u64);
        rep.count("setting_derived_registers_checked", derived.iter().filter(|d| snap.get(&d.0) == Some(&d.1) || snap.get(&d.0) == Some(&d.2)).count() as u64);
        if !suf.is_empty() {
            rep.count("suffix_memory_effects_compared", 1);
        }
        rep.state(hash_str(spec.name) ^ rig.board.borrow().chip().state_hash());
    }
    Ok(out)
}

struct Case {
    spec: &'static Spec,
    p: Vec<usize>,
    s: Vec<usize>,
    cycles: u32,
    bare: bool,
}

pub fn run(ctx: &Ctx) -> Report {
    let mut cases = Vec::new();
    let mut rng = Rng::derive(ctx.seed, 0xC08);
    for spec in panels_for(ctx) {
        let syms = syms(spec);
        let h1 = histories(spec, &syms, 1);
        let mut ps: Vec<Vec<usize>> = vec![vec![]];
        ps.extend(h1.iter().cloned());
        let mut ss: Vec<Vec<usize>> = vec![vec![]];
        ss.extend(h1.iter().cloned());
        if ctx.tier_thorough {
            ps.extend(histories(spec, &syms, 2));
        }
        for p in &ps {
            for s in &ss {
                if ctx.tier_thorough || p.len() + s.len() <= 2 {
                    // suffix must be legal after the prefix's settings: re-check grammar over p+s
                    let mut g = Grammar::default();
                    let mut ok = true;
                    for i in p.iter().chain(s.iter()) {
                        if !g.allows(spec, &syms[*i]) {
                            ok = false;
                        }
                        g.step(spec, &syms[*i]);
                    }
                    if ok {
                        cases.push(Case { spec, p: p.clone(), s: s.clone(), cycles: 1, bare: false });
                    }
                }
            }
            if p.len() <= 1 {
                cases.push(Case { spec, p: p.clone(), s: vec![], cycles: 2, bare: false });
                cases.push(Case { spec, p: p.clone(), s: vec![], cycles: 3, bare: false });
                cases.push(Case { spec, p: p.clone(), s: vec![], cycles: 0, bare: true });
                for s in ss.iter().take(if ctx.tier_thorough { 1000 } else { 6 }) {
                    cases.push(Case { spec, p: p.clone(), s: s.clone(), cycles: 0, bare: true });
                }
            }
        }
        // sampled longer prefixes (the settings and partial/quick operations of a longer session) with one suffix symbol
        let big = spec.w * spec.h > 300 * 400;
        let nwalk = match (ctx.tier_thorough, big) {
            (false, true) => 20,
            (false, false) => 150,
            (true, true) => 300,
            (true, false) => 3000,
        };
        for j in 0..nwalk {
            let n = if ctx.tier_thorough { 3 + j % 5 } else { 2 + j % 3 };
            let p = random_history(spec, &syms, n, &mut rng);
            // a suffix symbol that the grammar allows after the prefix
            let mut g = Grammar::default();
            for i in &p {
                g.step(spec, &syms[*i]);
            }
            let cand: Vec<usize> = (0..syms.len()).filter(|i| g.allows(spec, &syms[*i])).collect();
            let s = if cand.is_empty() || j % 4 == 0 { vec![] } else { vec![cand[(rng.next() as usize) % cand.len()]] };
            cases.push(Case { spec, p, s, cycles: 1 + (j % 5 == 0) as u32, bare: false });
        }
    }
    let variant = ctx.variant.clone();
    let mut rep12 = Report::new();
    if ctx.variant == "v3" && ctx.only_panel.as_deref().map(|p| p == "epd12in48b_v2").unwrap_or(true) {
        crate::props::p12checks::c08(&mut rep12, ctx.tier_thorough);
    }
    let mut out = par_run(&cases, ctx.threads, |_, c, rep| {
        let spec = c.spec;
        let syms = syms(spec);
        rep.eval(spec.name);
        let mut ops = flatten(&syms, &c.p);
        for _ in 0..c.cycles {
            ops.push(Op::new(K::Sleep));
            ops.push(Op::new(K::WakeUp));
        }
        if c.bare {
            ops.push(Op::new(K::WakeUp));
        }
        ops.extend(flatten(&syms, &c.s));
        match eval(spec, &syms, &c.p, &c.s, c.cycles, c.bare, Some(rep)) {
            Err(e) => {
                rep.count("histories_with_failing_op", 1);
                rep.note(&format!("history op failed (not judged here): {} {}", spec.name, e));
            }
            Ok(fails) => {
                rep.nontrivial(hash_str(&format!("{}|{}", spec.name, ops_short(&ops))));
                if fails.is_empty() && rep.samples.len() < 8 && c.p.len() + c.s.len() >= 2 {
                    rep.sample(case_json(spec, &variant, &ops));
                }
                for (entry, class, tags, detail) in fails {
                    let sig0 = format!("{}|{}|{}", entry, class, tags.join(","));
                    // minimise prefix, then suffix
                    let minp = minimize_history(&c.p, &sig0, &|t: &[usize]| match eval(spec, &syms, t, &c.s, c.cycles, c.bare, None) {
                        Ok(v) => v.iter().map(|(e, cl, tg, _)| format!("{}|{}|{}", e, cl, tg.join(","))).find(|s| *s == sig0),
                        _ => None,
                    });
                    let mins = minimize_history(&c.s, &sig0, &|t: &[usize]| match eval(spec, &syms, &minp, t, c.cycles, c.bare, None) {
                        Ok(v) => v.iter().map(|(e, cl, tg, _)| format!("{}|{}|{}", e, cl, tg.join(","))).find(|s| *s == sig0),
                        _ => None,
                    });
                    let mut tags = tags;
                    if !minp.is_empty() {
                        tags.push(format!("prefix:{}", sym_kinds(&syms, &minp)));
                    }
                    if !mins.is_empty() {
                        tags.push(format!("suffix:{}", sym_kinds(&syms, &mins)));
                    }
                    if c.bare && class != "sleep-signature" {
                        // does it also fail with a preceding sleep? keep the tag only when specific to the bare wake-up
                        let with_sleep = eval(spec, &syms, &minp, &mins, 1, false, None).map(|v| v.iter().any(|(e, cl, tg, _)| format!("{}|{}|{}", e, cl, tg.join(",")) == sig0)).unwrap_or(false);
                        if !with_sleep {
                            tags.push("wake-without-sleep".into());
                        }
                    }
                    rep.fail(Failure { panel: spec.name.into(), entry, class, tags, detail: format!("{} | seen in: {}", detail, ops_short(&ops)), case: case_json(spec, &variant, &ops) });
                }
            }
        }
    });
    out.merge(rep12);
    // (A clause 'sleep on a panel that is busy after power-off and ignores commands while busy' was tried and
    // dropped: the unchanged 2in13_v2 and 5in65f drivers send the deep-sleep command right behind a busy-raising
    // command exactly as the vendor sequences do, so the command-dropping panel is too hostile a model here.)
    // ---- sleep after a call that was cut short by an SPI error ---------------------------------
    // ("the sleep call ends with the controller in its deep-sleep state" also when the previous call
    // returned an error - putting the panel to sleep is what a caller does then)
    struct FCase {
        spec: &'static Spec,
        asleep_first: bool,
        sym: usize,
        k: u64,
    }
    let mut fcases: Vec<FCase> = Vec::new();
    for spec in panels_for(ctx) {
        let syms = syms(spec);
        for asleep_first in [false, true] {
            for si in 0..syms.len() {
                if asleep_first && !syms[si].iter().any(|o| o.k == K::WakeUp) {
                    continue; // only wake-up is legal on a sleeping panel
                }
                let mut dry = Rig::simple(spec);
                if asleep_first && !dry.apply(&Op::new(K::Sleep)).is_ok() {
                    continue;
                }
                let n = symbol_transfers(&mut dry, &syms[si]);
                if n == 0 {
                    continue;
                }
                for k in fault_points(n, if ctx.tier_thorough { 64 } else { 16 }) {
                    fcases.push(FCase { spec, asleep_first, sym: si, k });
                }
            }
        }
    }
    let frep = par_run(&fcases, ctx.threads, |_, c, rep| {
        let spec = c.spec;
        let syms = syms(spec);
        rep.eval(spec.name);
        let mut rig = Rig::simple(spec);
        if c.asleep_first && !rig.apply(&Op::new(K::Sleep)).is_ok() {
            return;
        }
        let Some(failed) = apply_symbol_with_fault(&mut rig, &syms[c.sym], c.k, 0xC08) else {
            rep.count("fault_histories_not_judged", 1);
            return;
        };
        let c0 = rig.board.borrow().chip().cmds.len();
        let o = rig.apply(&Op::new(K::Sleep));
        rep.nontrivial(hash_str(&format!("{}|faultsleep|{}|{}|{}", spec.name, c.asleep_first, c.sym, c.k)));
        rep.count("sleep_after_aborted_call_checked", 1);
        let mut ops: Vec<Op> = if c.asleep_first { vec![Op::new(K::Sleep)] } else { vec![] };
        ops.extend(syms[c.sym].iter().cloned());
        ops.push(Op::new(K::Sleep));
        let case = case_json(spec, &variant, &ops).set("fault_at_transfer", c.k).set("failed_call", failed.as_str());
        if !o.is_ok() {
            rep.fail(Failure { panel: spec.name.into(), entry: "sleep".into(), class: "sleep-signature".into(), tags: vec!["sleep-fails".into(), format!("aborted:{}", sym_kinds(&syms, &[c.sym]))], detail: format!("sleep() after {} was cut short at its transfer {} returned {}", failed, c.k, o.short()), case });
            return;
        }
        for (class, mut tags, detail) in check_sleep(spec, &rig, c0) {
            // judged only where sleep on a driver that never failed passes (known sleep findings stay with their own case)
            let mut plain = Rig::simple(spec);
            let p0 = plain.board.borrow().chip().cmds.len();
            let _ = plain.apply(&Op::new(K::Sleep));
            if check_sleep(spec, &plain, p0).iter().any(|(c2, _, _)| *c2 == class) {
                continue;
            }
            tags.push(format!("aborted:{}", sym_kinds(&syms, &[c.sym])));
            rep.fail(Failure { panel: spec.name.into(), entry: "sleep".into(), class, tags, detail: format!("{} | after {} was cut short at its transfer {}", detail, failed, c.k), case: case.clone() });
        }
    });
    out.merge(frep);
    // ---- sleep; X; sleep ------------------------------------------------------------------------
    // "the sleep call ends with the controller in its deep-sleep state" whatever was called since the
    // previous sleep - also a call that wakes the controller by itself (some drivers pulse RST inside an
    // update call) without going through wake_up. Only the controller's state after the last sleep is
    // judged; what X does to a sleeping panel is not.
    struct SCase {
        spec: &'static Spec,
        sym: usize,
    }
    let mut scases: Vec<SCase> = Vec::new();
    for spec in panels_for(ctx) {
        for si in 0..syms(spec).len() {
            scases.push(SCase { spec, sym: si });
        }
    }
    let srep = par_run(&scases, ctx.threads, |_, c, rep| {
        let spec = c.spec;
        let syms = syms(spec);
        rep.eval(spec.name);
        let mut rig = Rig::simple(spec);
        if !rig.apply(&Op::new(K::Sleep)).is_ok() {
            return;
        }
        if !rig.board.borrow().chip().asleep {
            // the plain sleep of this driver does not reach deep sleep: that is its own (sleep-signature) case
            rep.count("sleep_x_sleep_skipped_plain_sleep_not_asleep", 1);
            return;
        }
        for o in &syms[c.sym] {
            if !rig.apply(o).is_ok() {
                rep.count("sleep_x_sleep_not_judged", 1);
                return;
            }
        }
        let c0 = rig.board.borrow().chip().cmds.len();
        let o = rig.apply(&Op::new(K::Sleep));
        rep.nontrivial(hash_str(&format!("{}|sleepxsleep|{}", spec.name, c.sym)));
        rep.count("sleep_x_sleep_checked", 1);
        let mut ops = vec![Op::new(K::Sleep)];
        ops.extend(syms[c.sym].iter().cloned());
        ops.push(Op::new(K::Sleep));
        let case = case_json(spec, &variant, &ops);
        let between = format!("between:{}", sym_kinds(&syms, &[c.sym]));
        if !o.is_ok() {
            rep.fail(Failure { panel: spec.name.into(), entry: "sleep".into(), class: "sleep-signature".into(), tags: vec!["sleep-fails".into(), between], detail: format!("second sleep() of {} returned {}", ops_short(&ops), o.short()), case });
            return;
        }
        let asleep = rig.board.borrow().chip().asleep;
        let sent = rig.board.borrow().chip().cmds.len() - c0;
        if !asleep {
            rep.fail(Failure { panel: spec.name.into(), entry: "sleep".into(), class: "not-asleep-after-sleep".into(), tags: vec![between], detail: format!("after {} the controller model is awake (the last sleep() sent {} command(s))", ops_short(&ops), sent), case });
        }
    });
    out.merge(srep);
    out
}
