//! C09 — a refresh only ever reaches an initialised, powered controller; the driver's own
//! bookkeeping of the power state never diverges from the controller's.
use crate::json::J;
use crate::model::{bit_get, Ctrl, Power, RefreshEv};
use crate::ops::*;
use crate::panels::*;
use crate::props::common::*;
use crate::prng::{hash_str, Rng};
use crate::report::{par_run, Failure, Report};
use crate::Ctx;

/// judge one refresh event; returns (class, tag)
pub fn judge(spec: &Spec, r: &RefreshEv) -> Vec<(String, Vec<String>)> {
    let mut out = Vec::new();
    if r.asleep {
        out.push(("refresh-asleep".to_string(), vec![]));
        return out;
    }
    let mut best_missing: Option<Vec<u8>> = None;
    for set in spec.essential {
        let missing: Vec<u8> = set.iter().copied().filter(|op| !bit_get(&r.written, *op)).collect();
        if missing.is_empty() {
            best_missing = None;
            break;
        }
        if best_missing.as_ref().map(|b| missing.len() < b.len()).unwrap_or(true) {
            best_missing = Some(missing);
        }
    }
    if let Some(m) = best_missing {
        if !spec.essential.is_empty() {
            out.push(("refresh-uninitialised".to_string(), vec![format!("missing={}", m.iter().map(|o| format!("{:02X}", o)).collect::<Vec<_>>().join("+"))]));
        }
    }
    if spec.needs_pon && r.power != Power::On {
        out.push(("refresh-unpowered".to_string(), vec![format!("power={:?}", r.power)]));
    }
    out
}

/// run a history; returns the first failure (class, tags, entry, detail) or None; Err when an op failed
fn eval(spec: &'static Spec, syms: &[Sym], h: &[usize], rep: Option<&mut Report>) -> Result<Option<(String, Vec<String>, String, String)>, String> {
    let ops = flatten(syms, h);
    let mut rig = Rig::simple(spec);
    let mut found = None;
    let mut nref = 0usize;
    let mut nasleep = 0usize;
    for (i, o) in ops.iter().enumerate() {
        let out = rig.apply(o);
        if !out.is_ok() {
            return Err(format!("{} -> {}", o.short(), out.short()));
        }
        let b = rig.board.borrow();
        let chip = b.chip();
        for r in &chip.refreshes[nref..] {
            for (class, tags) in judge(spec, r) {
                if found.is_none() {
                    found = Some((class, tags, o.k.name().to_string(), format!("refresh trigger in op #{} ({}) reached the controller with power={:?} asleep={}", i + 1, o.short(), r.power, r.asleep)));
                }
            }
        }
        nref = chip.refreshes.len();
        if chip.triggers_while_asleep.len() > nasleep && found.is_none() {
            found = Some(("refresh-asleep".to_string(), vec![], o.k.name().to_string(), format!("refresh trigger {:02X} in op #{} ({}) was sent to a controller in deep sleep", chip.triggers_while_asleep[nasleep].1, i + 1, o.short())));
        }
        nasleep = chip.triggers_while_asleep.len();
        // driver bookkeeping (hook) vs controller
        if let Some(flag) = rig.panel.power_flag() {
            let model_on = chip.power == Power::On;
            if flag != model_on && found.is_none() {
                found = Some(("flag-diverged".to_string(), vec![format!("driver={} controller={:?}", flag, chip.power)], o.k.name().to_string(), format!("after op #{} ({}) the driver believes powered={} while the controller is {:?}", i + 1, o.short(), flag, chip.power)));
            }
        }
    }
    if let Some(rep) = rep {
        let b = rig.board.borrow();
        rep.count("refresh_triggers_judged", nref as u64);
        rep.count("hw_resets_observed", b.chip().resets as u64);
        if rig.panel.power_flag().is_some() {
            rep.count("hook_reads", ops.len() as u64);
        }
        if nref > 0 {
            rep.nontrivial(hash_str(&format!("{}|{}", spec.name, ops_short(&ops))));
        }
        rep.state(hash_str(spec.name) ^ b.chip().state_hash());
    }
    Ok(found)
}

/// fault + retry: the k-th SPI transfer of symbol `sym` fails (the call returns the error), the caller
/// repeats the same call(s), then refreshes. Every refresh of the retry and of the suffix is judged, and
/// the bookkeeping hook is compared with the controller after every successful call.
fn eval_fault(spec: &'static Spec, syms: &[Sym], pre: &[usize], sym: usize, k: u64, suffix: &[Op], rep: Option<&mut Report>) -> Result<Option<(String, Vec<String>, String, String)>, String> {
    let mut rig = Rig::simple(spec);
    for o in flatten(syms, pre) {
        let out = rig.apply(&o);
        if !out.is_ok() {
            return Err(format!("{} -> {}", o.short(), out.short()));
        }
    }
    rig.board.borrow_mut().arm_fault(k, 0xC09);
    let mut failed_at: Option<String> = None;
    for o in &syms[sym] {
        let out = rig.apply(o);
        if !out.is_ok() {
            failed_at = Some(o.short());
            break;
        }
    }
    rig.board.borrow_mut().disarm_fault();
    let Some(failed_op) = failed_at else {
        return Err("fault index beyond the symbol".into());
    };
    if rig.poisoned {
        return Err("faulted call panicked (judged by C04)".into());
    }
    let mut found = None;
    let mut nref = rig.board.borrow().chip().refreshes.len();
    let n0 = nref;
    let mut follow: Vec<Op> = syms[sym].clone();
    follow.extend(suffix.iter().cloned());
    for (i, o) in follow.iter().enumerate() {
        let out = rig.apply(o);
        if !out.is_ok() {
            return Err(format!("retry {} -> {}", o.short(), out.short()));
        }
        let b = rig.board.borrow();
        let chip = b.chip();
        for r in &chip.refreshes[nref..] {
            for (class, tags) in judge(spec, r) {
                if found.is_none() {
                    found = Some((class, tags, o.k.name().to_string(), format!("after {} failed at its transfer {} and was repeated, the refresh trigger in follow-up call #{} ({}) reached the controller with power={:?} asleep={}", failed_op, k, i + 1, o.short(), r.power, r.asleep)));
                }
            }
        }
        nref = chip.refreshes.len();
        if let Some(flag) = rig.panel.power_flag() {
            let model_on = chip.power == Power::On;
            if flag != model_on && found.is_none() {
                found = Some(("flag-diverged".to_string(), vec![format!("driver={} controller={:?}", flag, chip.power)], o.k.name().to_string(), format!("after {} failed at its transfer {} and follow-up call #{} ({}) the driver believes powered={} while the controller is {:?}", failed_op, k, i + 1, o.short(), flag, chip.power)));
            }
        }
    }
    if let Some(rep) = rep {
        rep.count("fault_retry_histories", 1);
        rep.count("refresh_triggers_judged", (nref - n0) as u64);
        if nref > n0 {
            rep.nontrivial(hash_str(&format!("{}|fault|{:?}|{}|{}|{}", spec.name, pre, sym, k, ops_short(suffix))));
        }
    }
    Ok(found)
}

struct FCase {
    spec: &'static Spec,
    pre: Vec<usize>,
    sym: usize,
    k: u64,
    suffix: Vec<Op>,
}

struct Case {
    spec: &'static Spec,
    h: Vec<usize>,
}

pub fn run(ctx: &Ctx) -> Report {
    let mut cases = Vec::new();
    let mut rng = Rng::derive(ctx.seed, 0xC09);
    for spec in panels_for(ctx) {
        let syms = syms(spec);
        let maxlen = if ctx.tier_thorough { 3 } else { 2 };
        for n in 1..=maxlen {
            for h in histories(spec, &syms, n) {
                cases.push(Case { spec, h });
            }
        }
        let big = spec.w * spec.h > 300 * 400;
        if ctx.tier_thorough {
            for _ in 0..(if big { 2000 } else { 12000 }) {
                cases.push(Case { spec, h: random_history(spec, &syms, 4, &mut rng) });
            }
            // long random walks
            for j in 0..(if big { 500 } else { 4000 }) {
                cases.push(Case { spec, h: random_history(spec, &syms, 5 + j % 8, &mut rng) });
            }
        } else {
            // quick tier: every length-3 history that ends in a symbol with a refresh trigger (what two earlier
            // calls did to the driver's idea of the panel state decides whether that refresh is legal) ...
            let refreshing = |i: usize| syms[i].iter().any(|o| matches!(o.k, K::Display | K::UpdateAndDisplay | K::Clear | K::DisplayNew | K::UpdateAndDisplayNew));
            for h in histories(spec, &syms, 3) {
                if refreshing(h[2]) && (!big || h[0] != h[1]) {
                    cases.push(Case { spec, h });
                }
            }
            // ... and sampled histories of 3..=6 symbols on top of the exhaustive length 1-2
            for j in 0..(if big { 60 } else { 400 }) {
                cases.push(Case { spec, h: random_history(spec, &syms, 3 + j % 4, &mut rng) });
            }
        }
    }
    let variant = ctx.variant.clone();
    let mut rep12 = Report::new();
    if ctx.variant == "v3" && ctx.only_panel.as_deref().map(|p| p == "epd12in48b_v2").unwrap_or(true) {
        crate::props::p12checks::c09(&mut rep12, ctx.tier_thorough);
    }
    let mut out = par_run(&cases, ctx.threads, |_, c, rep| {
        let spec = c.spec;
        let syms = syms(spec);
        rep.eval(spec.name);
        let ops = flatten(&syms, &c.h);
        match eval(spec, &syms, &c.h, Some(rep)) {
            Err(e) => {
                rep.count("histories_with_failing_op", 1);
                rep.note(&format!("history op failed (not judged here): {} {}", spec.name, e));
            }
            Ok(None) => {
                if rep.samples.len() < 8 && c.h.len() >= 2 {
                    rep.sample(case_json(spec, &variant, &ops));
                }
            }
            Ok(Some((class, tags, entry, detail))) => {
                let sig0 = format!("{}|{}|{}", class, tags.join(","), entry);
                let min = minimize_history(&c.h, &sig0, &|t: &[usize]| match eval(spec, &syms, t, None) {
                    Ok(Some((cl, tg, en, _))) => Some(format!("{}|{}|{}", cl, tg.join(","), en)),
                    _ => None,
                });
                let mut tags = tags;
                tags.push(format!("hist:{}", sym_kinds(&syms, &min)));
                let min_ops = flatten(&syms, &min);
                rep.fail(Failure { panel: spec.name.into(), entry, class, tags, detail: format!("{} | minimal history: {} | seen in: {}", detail, ops_short(&min_ops), ops_short(&ops)), case: case_json(spec, &variant, &min_ops) });
            }
        }
    });
    out.merge(rep12);
    // ---- fault + retry histories --------------------------------------------------------------
    let mut fcases: Vec<FCase> = Vec::new();
    for spec in panels_for(ctx) {
        let syms = syms(spec);
        let mut suffixes: Vec<Vec<Op>> = vec![vec![Op::new(K::Display)], vec![frame_op(spec, K::UpdateAndDisplay, 0xC09)]];
        if ctx.tier_thorough {
            suffixes.push(vec![Op::new(K::Clear), Op::new(K::Display)]);
            suffixes.push(vec![Op::new(K::Display), Op::new(K::Display)]);
        }
        let mut pres: Vec<Vec<usize>> = vec![vec![]];
        if ctx.tier_thorough {
            for i in 0..syms.len() {
                pres.push(vec![i]);
            }
        }
        for pre in &pres {
            let mut g = Grammar::default();
            for i in pre {
                g.step(spec, &syms[*i]);
            }
            for si in 0..syms.len() {
                if !g.allows(spec, &syms[si]) {
                    continue;
                }
                // number of SPI transfers of the symbol in this context (dry run)
                let n = {
                    let mut rig = Rig::simple(spec);
                    let mut ok = true;
                    for o in flatten(&syms, pre) {
                        ok &= rig.apply(&o).is_ok();
                    }
                    let w0 = rig.board.borrow().spi_writes;
                    for o in &syms[si] {
                        ok &= rig.apply(o).is_ok();
                    }
                    let w1 = rig.board.borrow().spi_writes;
                    if ok {
                        w1 - w0
                    } else {
                        0
                    }
                };
                if n == 0 {
                    continue;
                }
                // every early transfer (commands and parameters live there), both ends and seeded interior points
                let head = if ctx.tier_thorough { 96 } else { 40 };
                let mut ks: Vec<u64> = (0..n.min(head)).collect();
                for k in [n - 1, n.saturating_sub(2), n / 2, n / 3] {
                    if !ks.contains(&k) {
                        ks.push(k);
                    }
                }
                for _ in 0..(if ctx.tier_thorough { 8 } else { 2 }) {
                    let k = rng.below(n);
                    if !ks.contains(&k) {
                        ks.push(k);
                    }
                }
                for k in ks {
                    for (j, suf) in suffixes.iter().enumerate() {
                        if !ctx.tier_thorough && pre.is_empty() && j == 1 && k % 3 != 0 {
                            continue;
                        }
                        fcases.push(FCase { spec, pre: pre.clone(), sym: si, k, suffix: suf.clone() });
                    }
                }
            }
        }
    }
    let frep = par_run(&fcases, ctx.threads, |_, c, rep| {
        let spec = c.spec;
        let syms = syms(spec);
        rep.eval(spec.name);
        match eval_fault(spec, &syms, &c.pre, c.sym, c.k, &c.suffix, Some(rep)) {
            Err(_) => rep.count("fault_histories_not_judged", 1),
            Ok(None) => {}
            Ok(Some((class, mut tags, entry, detail))) => {
                tags.push(format!("fault-in:{}", sym_kinds(&syms, &[c.sym])));
                if !c.pre.is_empty() {
                    // is the predecessor needed?
                    let without = eval_fault(spec, &syms, &[], c.sym, c.k, &c.suffix, None).ok().flatten().map(|f| f.0 == class).unwrap_or(false);
                    if !without {
                        tags.push(format!("hist:{}", sym_kinds(&syms, &c.pre)));
                    }
                }
                let mut ops = flatten(&syms, &c.pre);
                ops.extend(syms[c.sym].iter().cloned());
                rep.fail(Failure { panel: spec.name.into(), entry, class, tags, detail, case: case_json(spec, &variant, &ops).set("fault_at_transfer", c.k).set("then", "the same call(s) repeated").set("suffix", ops_json(&c.suffix)) });
            }
        }
    });
    out.merge(frep);
    out
}
