//! C10 — wire framing: D/C discipline, transfer size limit, exact repeat counts, chunking.
//! Offline checker over the raw HAL log of every operation.
use crate::hal::{Ev, Pin};
use crate::json::J;
use crate::model::CmdRec;
use crate::ops::*;
use crate::panels::*;
use crate::props::common::*;
use crate::prng::{hash_str, Rng};
use crate::proto::*;
use crate::report::{Failure, Report};
use crate::Ctx;

/// transfer-level rules over one op's log segment
pub fn check_transfers(spec: &Spec, log: &[Ev]) -> Vec<(&'static str, String)> {
    let mut out = Vec::new();
    for e in log {
        if let Ev::Spi { levels, len, .. } = e {
            let dc = levels & Pin::Dc.bit() != 0;
            if !dc && *len != 1 {
                out.push(("cmd-transfer-len>1", format!("a transfer of {} bytes was made with D/C low", len)));
            }
            if *len > 4096 {
                out.push(("transfer>4096", format!("one SPI transfer of {} bytes (Linux limit 4096)", len)));
            }
            if *len == 0 {
                // zero-length transfers are harmless; not flagged
            }
            if !spec.single_byte {
                // block-wise mode: nothing more to check per transfer
            }
        }
    }
    out.dedup();
    out
}

/// stream well-formedness: every D/C-low byte must be a defined opcode and parameter-less
/// commands must not be followed by data — a mis-driven D/C line breaks this immediately.
pub fn check_stream(spec: &Spec, cmds: &[CmdRec]) -> Vec<(&'static str, Vec<String>, String)> {
    let mut out = Vec::new();
    for c in cmds {
        if !opcode_defined(spec, c.op) {
            out.push(("undefined-opcode-in-stream", vec![format!("op={:02X}", c.op)], format!("byte {:02X} sent with D/C low is not a command of this controller", c.op)));
        } else if zero_arity(spec, c.op) && c.nparams > 0 {
            out.push(("arity-mismatch", vec![format!("op={:02X}", c.op)], format!("parameter-less command {:02X} is followed by {} bytes sent with D/C high", c.op, c.nparams)));
        }
    }
    out
}

/// concatenated D/C-high payload following the last RAM-write command `ramop` inside `log`
fn payload_after(log: &[Ev], bytes: &[u8], ramop: u8) -> Option<Vec<u8>> {
    let mut start = None;
    for (i, e) in log.iter().enumerate() {
        if let Ev::Spi { levels, off, len, ok: true } = e {
            let dc = levels & Pin::Dc.bit() != 0;
            if !dc && *len == 1 && bytes[*off as usize] == ramop {
                start = Some(i);
            }
        }
    }
    let s = start?;
    let mut v = Vec::new();
    for e in &log[s + 1..] {
        if let Ev::Spi { levels, off, len, ok: true } = e {
            let dc = levels & Pin::Dc.bit() != 0;
            if !dc {
                break;
            }
            v.extend_from_slice(&bytes[*off as usize..(*off + *len) as usize]);
        }
    }
    Some(v)
}

fn primary_ram_opcode(spec: &Spec, plane: usize) -> u8 {
    match spec.family {
        crate::model::Family::Ssd => {
            if plane == 0 {
                0x24
            } else {
                0x26
            }
        }
        _ => {
            if plane == 0 {
                0x10
            } else {
                0x13
            }
        }
    }
}

pub fn run(ctx: &Ctx) -> Report {
    let mut rep = Report::new();
    // ---- part 1: every op of every panel (length-1 histories + after a predecessor) ------------
    for spec in panels_for(ctx) {
        let syms = syms(spec);
        let mut hist = histories(spec, &syms, 1);
        if ctx.tier_thorough {
            hist.extend(histories(spec, &syms, 2));
        }
        hist.insert(0, vec![]);
        for h in hist {
            let ops = flatten(&syms, &h);
            rep.eval(spec.name);
            let mut rig = Rig::simple(spec);
            let outs = rig.apply_all(&ops);
            if outs.iter().any(|o| !o.is_ok()) {
                rep.inconclusive("operation did not return Ok (reported by the property that owns it)");
            }
            let b = rig.board.borrow();
            let segs = op_segments(&b.log);
            rep.count("transfers_examined", b.spi_writes);
            rep.count("bytes_on_wire", b.spi_bytes);
            let mut cmd_idx = 0usize;
            for (oi, s, e) in segs {
                let entry = if oi == 0 { "new".to_string() } else { ops[(oi - 1) as usize].k.name().to_string() };
                for (class, detail) in check_transfers(spec, &b.log[s..e]) {
                    rep.fail(Failure { panel: spec.name.into(), entry: entry.clone(), class: class.into(), tags: vec![], detail: format!("{} (history: {})", detail, ops_short(&ops)), case: case_json(spec, &ctx.variant, &ops) });
                }
                let cmds: Vec<CmdRec> = b.chip().cmds.iter().filter(|c| c.opidx == oi + 1 || (oi == 0 && c.opidx == 1)).cloned().collect();
                let _ = cmd_idx;
                cmd_idx += cmds.len();
                for (class, tags, detail) in check_stream(spec, &cmds) {
                    rep.fail(Failure { panel: spec.name.into(), entry: entry.clone(), class: class.into(), tags, detail: format!("{} (history: {})", detail, ops_short(&ops)), case: case_json(spec, &ctx.variant, &ops) });
                }
            }
            if b.anomalies.len() > 0 {
                rep.count("board_anomalies", b.anomalies.len() as u64);
            }
            if b.chip().anomaly_count("data-without-command") > 0 {
                // data bytes before any command since reset: D/C discipline broken
                rep.fail(Failure { panel: spec.name.into(), entry: "stream".into(), class: "data-before-any-command".into(), tags: vec![], detail: format!("history: {}", ops_short(&ops)), case: case_json(spec, &ctx.variant, &ops) });
            }
            rep.nontrivial(hash_str(&format!("{}|{}", spec.name, ops_short(&ops))));
            // the same history on a board whose D/C line powers up high: the decoded stream must not
            // depend on it (the line is driven before every transfer it qualifies)
            let base: Vec<(u32, u8, u32, u64)> = b.chip().cmds.iter().map(|r| (r.opidx, r.op, r.nparams, r.hash)).collect();
            drop(b);
            if let Ok(mut twin) = Rig::new(spec, |b| b.levels = Pin::Dc.bit(), None, false) {
                twin.apply_all(&ops);
                let tb = twin.board.borrow();
                let got: Vec<(u32, u8, u32, u64)> = tb.chip().cmds.iter().map(|r| (r.opidx, r.op, r.nparams, r.hash)).collect();
                rep.count("power_on_streams_compared", 1);
                if base != got {
                    let k = base.iter().zip(got.iter()).position(|(a, b)| a != b).unwrap_or(base.len().min(got.len()));
                    let opi = base.get(k).or(got.get(k)).map(|r| r.0).unwrap_or(1) as usize;
                    let entry = if opi <= 1 { "new".to_string() } else { ops.get(opi - 2).map(|o| o.k.name().to_string()).unwrap_or("new".into()) };
                    rep.fail(Failure {
                        panel: spec.name.into(),
                        entry,
                        class: "dc-not-driven".into(),
                        tags: vec!["power-on=dc-high".into()],
                        detail: format!("the controller decodes a different stream when D/C powers up high (command #{}: {:02X?} vs {:02X?}); history: {}", k, base.get(k).map(|r| (r.1, r.2)), got.get(k).map(|r| (r.1, r.2)), ops_short(&ops)),
                        case: case_json(spec, &ctx.variant, &ops).set("power_on_levels", "dc-high"),
                    });
                }
            }
        }
    }
    // ---- part 2: payload conservation across chunking, both write modes ----------------------
    let mut lens: Vec<usize> = vec![1, 2, 4095, 4096, 4097, 8191, 8192, 8193, 12288];
    let mut rng = Rng::derive(ctx.seed, 0xC10);
    let nrand = if ctx.tier_thorough { 40 } else { 6 };
    for _ in 0..nrand {
        lens.push(rng.range(1, 20000) as usize);
    }
    // these update_frame implementations forward any length: block-wise and byte-wise writers
    let sweep_panels = ["epd7in5_v2", "epd7in5_hd", "epd2in9b_v4", "epd4in2", "epd2in9", "epd7in5b_v2"];
    for spec in panels_for(ctx) {
        let is_sweep = sweep_panels.contains(&spec.name);
        let mut my_lens: Vec<usize> = if is_sweep { lens.clone() } else { vec![] };
        let e0 = spec.full_entry(K::UpdateFrame).unwrap();
        my_lens.push(spec.entry_buf_len(e0));
        for len in my_lens {
            let salts: &[u32] = if ctx.tier_thorough { &[1, 2, 3] } else { &[1] };
            for salt in salts {
                rep.eval(spec.name);
                let img = Img::Coded { salt: *salt + len as u32, len };
                let op = Op::img(K::UpdateFrame, img.clone());
                let mut rig = Rig::simple(spec);
                let o = rig.apply(&op);
                if !o.is_ok() {
                    // the driver asserts the documented length: not a case for the chunking sweep
                    rep.count("lengths_rejected_by_driver", 1);
                    continue;
                }
                let b = rig.board.borrow();
                let segs = op_segments(&b.log);
                let (_, s, e) = *segs.last().unwrap();
                let ramop = primary_ram_opcode(spec, e0.plane);
                let want_full = encode(e0.enc, &img.make());
                // 7in5b_v2 update_frame sends the first half to DTM1
                let want: &[u8] = if e0.plane2.is_some() && e0.buf == BufSel::Whole { &want_full[..want_full.len() / 2] } else { &want_full[..] };
                let got = payload_after(&b.log[s..e], &b.bytes, ramop);
                rep.count("payload_bytes_compared", want.len() as u64);
                let case = case_json(spec, &ctx.variant, &[op.clone()]).set("len", len);
                match got {
                    None => rep.fail(Failure { panel: spec.name.into(), entry: "update_frame".into(), class: "payload-differs".into(), tags: vec!["no-ram-command".into()], detail: format!("RAM write command {:02X} not found on the wire", ramop), case }),
                    Some(g) => {
                        if g.len() != want.len() {
                            rep.fail(Failure { panel: spec.name.into(), entry: "update_frame".into(), class: "payload-differs".into(), tags: vec!["length".into()], detail: format!("buffer of {} bytes: {} payload bytes on the wire, expected {}", len, g.len(), want.len()), case });
                        } else if let Some(p) = g.iter().zip(want.iter()).position(|(a, b)| a != b) {
                            rep.fail(Failure { panel: spec.name.into(), entry: "update_frame".into(), class: "payload-differs".into(), tags: vec!["content".into()], detail: format!("buffer of {} bytes: first difference at payload byte {} (got {:02X}, expected {:02X})", len, p, g[p], want[p]), case });
                        }
                    }
                }
                for (class, detail) in check_transfers(spec, &b.log[s..e]) {
                    rep.fail(Failure { panel: spec.name.into(), entry: "update_frame".into(), class: class.into(), tags: vec![], detail: format!("{} (buffer length {})", detail, len), case: J::obj().set("panel", spec.name).set("len", len) });
                }
                // chunk structure observed
                let nchunks = b.log[s..e].iter().filter(|e| matches!(e, Ev::Spi { len, .. } if *len > 1)).count();
                rep.count("multi_byte_transfers", nchunks as u64);
                rep.nontrivial(hash_str(&format!("len|{}|{}|{}", spec.name, len, salt)));
                if rep.samples.len() < 10 && is_sweep {
                    rep.sample(J::obj().set("panel", spec.name).set("buffer_len", len).set("transfers", (e - s) as u64).set("multi_byte_transfers", nchunks));
                }
            }
        }
    }
    // ---- part 2b: partial updates: the bytes behind the RAM command end with exactly the lent buffer ----
    for spec in panels_for(ctx) {
        let mut rng = Rng::derive(ctx.seed, hash_str(spec.name) ^ 0xC10B);
        let wins = crate::props::c06::windows_for(spec, ctx.tier_thorough, &mut rng);
        for pe in spec.partial {
            if pe.is_fill {
                continue;
            }
            // the first windows of the list (edges, single byte / row, 256-row and 256-column boundaries) + the tallest and widest
            let mut ws: Vec<Win> = wins.iter().take(if ctx.tier_thorough { 200 } else { 40 }).cloned().collect();
            ws.push(Win::new(0, 0, w8(spec), spec.h));
            ws.push(Win::new(0, 0, 8, spec.h));
            ws.push(Win::new(0, 0, w8(spec), 1));
            if spec.h > 256 {
                ws.push(Win::new(8, 0, 8, 256));
                ws.push(Win::new(0, spec.h - 257, 16, 257));
            }
            for w in ws {
                rep.eval(spec.name);
                let mut rig = Rig::simple(spec);
                let mut pre: Vec<Op> = Vec::new();
                if spec.name == "epd2in9b_v4" {
                    pre.push(Op::img2(K::UpdateAndDisplayBase, frame_img(spec, K::UpdateFrame, 31), Img::None));
                }
                if let Some(k) = pe.after {
                    pre.push(partial_op(spec, k, w, 0x51));
                }
                if pre.iter().any(|o| !rig.apply(o).is_ok()) {
                    rep.count("ops_failing_for_other_reasons", 1);
                    continue;
                }
                let op = partial_op(spec, pe.k, w, 0x10B ^ (w.x * 31 + w.y));
                let o = rig.apply(&op);
                if !o.is_ok() {
                    rep.count("ops_failing_for_other_reasons", 1);
                    continue;
                }
                let b = rig.board.borrow();
                let segs = op_segments(&b.log);
                let (_, s, e) = *segs.last().unwrap();
                let lent = op.img.make();
                // all D/C-high bytes of the call, in order
                let mut data: Vec<u8> = Vec::new();
                for ev in &b.log[s..e] {
                    if let Ev::Spi { levels, off, len, ok: true } = ev {
                        if levels & Pin::Dc.bit() != 0 {
                            data.extend_from_slice(&b.bytes[*off as usize..(*off + *len) as usize]);
                        }
                    }
                }
                let want = encode(pe.enc, &lent);
                rep.count("partial_payload_bytes_compared", want.len() as u64);
                rep.nontrivial(hash_str(&format!("ppay|{}|{}|{:?}", spec.name, pe.k.name(), w)));
                // the lent buffer must appear on the wire as one contiguous run (window parameters precede it,
                // a few trailing parameter bytes of closing commands may follow)
                let found = want.is_empty() || data.windows(want.len()).any(|x| x == &want[..]);
                if !found {
                    rep.fail(Failure {
                        panel: spec.name.into(),
                        entry: pe.k.name().into(),
                        class: "payload-differs".into(),
                        tags: vec!["partial".into()],
                        detail: format!("window {:?}: the {} bytes lent to the call do not appear as one run among the {} data bytes it sent", w, want.len(), data.len()),
                        case: case_json(spec, &ctx.variant, &[op.clone()]),
                    });
                }
            }
        }
    }
    // ---- part 3a: clear_frame / update_frame: every RAM command of the call carries exactly one plane ----
    for spec in panels_for(ctx) {
        // every background colour the driver accepts (the fill count may sit in a per-colour branch)
        let mut combos: Vec<(K, u32)> = (0..spec.color.count()).map(|c| (K::Clear, c)).collect();
        combos.extend((0..spec.color.count()).map(|c| (K::UpdateFrame, c)));
        // panel-specific whole-plane writers outside the common trait
        for k in [K::Show7Block, K::ClearAchromatic, K::ClearChromatic] {
            if spec.has(k) {
                combos.extend((0..spec.color.count()).map(|c| (k, c)));
            }
        }
        for (k, bg) in combos {
            rep.eval(spec.name);
            let mut rig = Rig::simple(spec);
            let _ = rig.apply(&Op::arg(K::SetBg, bg));
            let c0 = rig.board.borrow().chip().cmds.len();
            let op = match k {
                K::UpdateFrame => frame_op(spec, K::UpdateFrame, 0xF111),
                other => Op::new(other),
            };
            let o = rig.apply(&op);
            if !o.is_ok() {
                rep.count("ops_failing_for_other_reasons", 1);
                continue;
            }
            let b = rig.board.borrow();
            for c in &b.chip().cmds[c0..] {
                if !is_ram_write(spec, c.op) {
                    continue;
                }
                // bytes of one complete plane behind this RAM command
                let bpp = match spec.family {
                    crate::model::Family::Ssd => 1,
                    _ => {
                        if c.op == 0x10 {
                            spec.bpp1
                        } else {
                            spec.bpp2
                        }
                    }
                };
                let want = ((spec.w * bpp + 7) / 8) * spec.h;
                rep.count("fill_bytes_counted", c.nparams as u64);
                if c.nparams != want {
                    rep.fail(Failure {
                        panel: spec.name.into(),
                        entry: k.name().into(),
                        class: "fill-count".into(),
                        tags: vec![format!("cmd={:02X}", c.op)],
                        detail: format!("command {:02X} received {} bytes, one plane is {} bytes", c.op, c.nparams, want),
                        case: case_json(spec, &ctx.variant, &[Op::arg(K::SetBg, bg), op.clone()]),
                    });
                }
            }
            rep.nontrivial(hash_str(&format!("plane-fill|{}|{}|{}", spec.name, k.name(), bg)));
        }
    }
    // ---- part 3: repeated fills send exactly the requested count ---------------------------------
    for spec in panels_for(ctx) {
        if !spec.has(K::ClearPartial) {
            continue;
        }
        let mut wins = canonical_windows(spec);
        // areas above the 4096-byte chunk size and odd sizes
        wins.push(Win::new(0, 0, w8(spec), (4104 / (w8(spec) / 8)).min(spec.h)));
        wins.push(Win::new(8, 1, w8(spec) - 8, spec.h - 1));
        let n = if ctx.tier_thorough { 60 } else { 10 };
        let mut rng = Rng::derive(ctx.seed, hash_str(spec.name));
        for _ in 0..n {
            let wb = rng.range(1, (w8(spec) / 8) as i64) as u32;
            let xb = rng.range(0, (w8(spec) / 8 - wb) as i64) as u32;
            let h = rng.range(1, spec.h as i64) as u32;
            let y = rng.range(0, (spec.h - h) as i64) as u32;
            wins.push(Win::new(xb * 8, y, wb * 8, h));
        }
        for w in wins {
            rep.eval(spec.name);
            let op = partial_op(spec, K::ClearPartial, w, 0);
            let mut rig = Rig::simple(spec);
            let c0 = rig.board.borrow().chip().cmds.len();
            let o = rig.apply(&op);
            if !o.is_ok() {
                rep.inconclusive("clear_partial_frame did not return Ok");
                continue;
            }
            let b = rig.board.borrow();
            let want = w.bytes() as u32;
            for c in &b.chip().cmds[c0..] {
                if is_ram_write(spec, c.op) {
                    rep.count("fill_bytes_counted", c.nparams as u64);
                    if c.nparams != want {
                        rep.fail(Failure {
                            panel: spec.name.into(),
                            entry: "clear_partial_frame".into(),
                            class: "fill-count".into(),
                            tags: vec![],
                            detail: format!("window {:?}: command {:02X} received {} fill bytes, requested {}", w, c.op, c.nparams, want),
                            case: case_json(spec, &ctx.variant, &[op.clone()]),
                        });
                    }
                }
            }
            rep.nontrivial(hash_str(&format!("fill|{}|{:?}", spec.name, w)));
        }
    }
    if ctx.variant == "v3" && ctx.only_panel.as_deref().map(|p| p == "epd12in48b_v2").unwrap_or(true) {
        crate::props::p12checks::c10(&mut rep);
        crate::props::p12checks::c10_power_on_levels(&mut rep);
    }
    rep
}
