//! C11 — construction and wake-up begin with a well-formed hardware reset pulse.
//! Offline checker over the HAL event log (RST edges, delays, SPI transfers on one logical clock).
use crate::hal::{Ev, Pin};
use crate::json::J;
use crate::ops::*;
use crate::panels::*;
use crate::props::common::*;
use crate::prng::hash_str;
use crate::report::{Failure, Report};
use crate::Ctx;

/// check one op segment. `strict_first`: no SPI byte may precede the pulse (new / wake_up).
pub fn check_segment(log: &[Ev], strict_first: bool) -> Vec<(&'static str, String)> {
    check_segment_pin(log, strict_first, Pin::Rst, &|_| true)
}

/// same for an arbitrary reset line; `spi_counts(levels)` tells whether an SPI transfer (given the
/// pin levels sampled with it) reaches a chip behind this reset line
pub fn check_segment_pin(log: &[Ev], strict_first: bool, rst: Pin, spi_counts: &dyn Fn(u16) -> bool) -> Vec<(&'static str, String)> {
    let mut out = Vec::new();
    let mut saw_high_before_fall = false;
    let mut spi_before = 0u32;
    let mut pulses = 0u32;
    #[derive(PartialEq)]
    enum St {
        Before,
        Low,
        Settle,
        Done,
    }
    let mut st = St::Before;
    let mut low_ns = 0u64;
    let mut settle_ns = 0u64;
    let mut rst_level: Option<bool> = None;
    for e in log {
        match e {
            Ev::PinSet { pin, level } if *pin == rst => {
                rst_level = Some(*level);
                if *level {
                    match st {
                        St::Before | St::Done | St::Settle => {
                            saw_high_before_fall = true;
                        }
                        St::Low => {
                            if low_ns == 0 {
                                out.push(("low-time-zero", format!("pulse {}: RST low for 0 ns of explicit delay", pulses)));
                            }
                            st = St::Settle;
                            settle_ns = 0;
                        }
                    }
                } else {
                    // falling edge
                    if st == St::Settle && settle_ns == 0 {
                        // a second pulse started without settling: judged at its own SPI boundary
                    }
                    if !saw_high_before_fall {
                        out.push(("no-initial-high", format!("pulse {}: RST driven low without being driven high first in this call", pulses + 1)));
                    }
                    pulses += 1;
                    st = St::Low;
                    low_ns = 0;
                    saw_high_before_fall = false;
                }
            }
            Ev::Delay { ns, .. } => match st {
                St::Low => low_ns += ns,
                St::Settle => settle_ns += ns,
                _ => {}
            },
            Ev::Spi { levels, .. } if spi_counts(*levels) => match st {
                St::Before => spi_before += 1,
                St::Low => out.push(("spi-while-reset-low", format!("SPI transfer while RST is low (pulse {})", pulses))),
                St::Settle => {
                    if settle_ns == 0 {
                        out.push(("settle-time-zero", format!("first SPI byte after pulse {} without any settling delay", pulses)));
                    }
                    st = St::Done;
                }
                St::Done => {}
            },
            _ => {}
        }
    }
    if pulses == 0 {
        out.push(("no-pulse", "no falling edge on RST during the call".to_string()));
    }
    if st == St::Low {
        out.push(("rst-left-low", "RST still low when the call returned".to_string()));
    } else if rst_level == Some(false) {
        out.push(("rst-left-low", "RST low when the call returned".to_string()));
    }
    if strict_first && spi_before > 0 && pulses > 0 {
        out.push(("spi-before-reset", format!("{} SPI transfers before the reset pulse", spi_before)));
    }
    out.dedup();
    out
}

pub fn run(ctx: &Ctx) -> Report {
    let mut rep = Report::new();
    // idle-delay settings: the documented ones plus unusually long but legal polling periods
    let delays: &[Option<u32>] = &[None, Some(0), Some(1), Some(250), Some(199_999), Some(200_000), Some(250_000), Some(u32::MAX)];
    for spec in panels_for(ctx) {
        // operations that must contain a pulse: new, wake_up (fresh, after sleep, twice), re-init ops
        let mut scenarios: Vec<(String, Vec<Op>, bool)> = Vec::new(); // (entry, prefix+op (last op is checked), strict)
        scenarios.push(("new".into(), vec![], true));
        scenarios.push(("wake_up".into(), vec![Op::new(K::WakeUp)], true));
        scenarios.push(("wake_up".into(), vec![Op::new(K::Sleep), Op::new(K::WakeUp)], true));
        scenarios.push(("wake_up".into(), vec![frame_op(spec, K::UpdateAndDisplay, 5), Op::new(K::WakeUp)], true));
        scenarios.push(("wake_up".into(), vec![Op::new(K::WakeUp), Op::new(K::WakeUp)], true));
        if ctx.tier_thorough {
            for s in syms(spec) {
                let mut v = s.clone();
                v.push(Op::new(K::WakeUp));
                scenarios.push(("wake_up".into(), v, true));
            }
        }
        // operations that re-initialise internally are listed by the property next to new / wake_up:
        // their pulse is judged the same way (nothing on the bus before it), from several driver states
        for k in spec.reinit_ops {
            match k {
                K::UpdateNew | K::UpdateAndDisplayNew => {
                    scenarios.push((k.name().into(), vec![frame_op(spec, K::UpdateOld, 1), frame_op(spec, *k, 2)], true));
                    scenarios.push((k.name().into(), vec![frame_op(spec, *k, 2)], true));
                    scenarios.push((k.name().into(), vec![frame_op(spec, K::UpdateAndDisplay, 4), frame_op(spec, K::UpdateOld, 1), frame_op(spec, *k, 2), frame_op(spec, *k, 3)], true));
                    scenarios.push((k.name().into(), vec![Op::new(K::Sleep), Op::new(K::WakeUp), frame_op(spec, K::UpdateOld, 1), frame_op(spec, *k, 2)], true));
                }
                K::UpdatePartial => {
                    let w = canonical_windows(spec);
                    scenarios.push((k.name().into(), vec![partial_op(spec, *k, w[0], 3)], true));
                    scenarios.push((k.name().into(), vec![frame_op(spec, K::UpdateAndDisplay, 4), partial_op(spec, *k, w[w.len() - 1], 3)], true));
                }
                K::SetRefresh => {
                    scenarios.push((k.name().into(), vec![Op::arg(K::SetRefresh, 2)], true));
                    scenarios.push((k.name().into(), vec![Op::arg(K::SetRefresh, 2), Op::arg(K::SetRefresh, 1)], true));
                    scenarios.push((k.name().into(), vec![Op::arg(K::SetRefresh, 2), Op::arg(K::SetRefresh, 1), Op::arg(K::SetRefresh, 2)], true));
                    scenarios.push((k.name().into(), vec![Op::arg(K::SetRefresh, 2), frame_op(spec, K::UpdateAndDisplay, 4), Op::arg(K::SetRefresh, 1)], true));
                    scenarios.push((k.name().into(), vec![frame_op(spec, K::UpdateAndDisplay, 4), Op::arg(K::SetRefresh, 2)], true));
                    scenarios.push((k.name().into(), vec![Op::new(K::Sleep), Op::arg(K::SetRefresh, 2)], true));
                    scenarios.push((k.name().into(), vec![Op::arg(K::SetRefresh, 2), Op::new(K::Sleep), Op::arg(K::SetRefresh, 1)], true));
                    if ctx.tier_thorough {
                        for s in syms(spec) {
                            // a symbol that itself selects a mode could make the final call a legitimate no-op
                            if s.iter().any(|o| matches!(o.k, K::SetRefresh | K::SetLut)) {
                                continue;
                            }
                            for (a, b) in [(2u32, 1u32), (1, 2)] {
                                let mut v = vec![Op::arg(K::SetRefresh, a)];
                                v.extend(s.clone());
                                v.push(Op::arg(K::SetRefresh, b));
                                scenarios.push((k.name().into(), v, true));
                            }
                        }
                    }
                }
                _ => {}
            }
        }
        // every scenario also on a panel that is still busy when the call under test starts (BUSY asserted for
        // three polls after each busy-raising command): a driver that first waits by polling over SPI breaks the rule
        let mut runs: Vec<(&(String, Vec<Op>, bool), Option<u32>, bool)> = Vec::new();
        for sc in &scenarios {
            for d in delays {
                runs.push((sc, *d, false));
            }
            if !sc.1.is_empty() {
                runs.push((sc, None, true));
            }
        }
        // busy twin of the plain wake_up scenarios with a refresh right before
        let busy_extra: Vec<(String, Vec<Op>, bool)> = vec![
            ("wake_up".into(), vec![Op::new(K::Display), Op::new(K::WakeUp)], true),
            ("wake_up".into(), vec![Op::new(K::Clear), Op::new(K::WakeUp)], true),
            ("wake_up".into(), vec![frame_op(spec, K::UpdateAndDisplay, 5), Op::new(K::Display), Op::new(K::WakeUp)], true),
        ];
        for sc in &busy_extra {
            runs.push((sc, None, true));
        }
        for ((entry, ops, strict), d, busy) in runs.iter().map(|(sc, d, b)| (*sc, d, *b)) {
            {
                rep.eval(spec.name);
                let rig = Rig::new(
                    spec,
                    |b| {
                        if busy {
                            b.busy_mode = crate::hal::BusyMode::Physical;
                            b.chips[0].busy.default_d = 3;
                        }
                    },
                    *d,
                    false,
                );
                let mut rig = match rig {
                    Ok(r) => r,
                    Err((o, _)) => {
                        rep.fail(Failure { panel: spec.name.into(), entry: "new".into(), class: "panic".into(), tags: vec![], detail: o.short(), case: J::obj().set("panel", spec.name) });
                        continue;
                    }
                };
                let mut bad_prefix = false;
                for o in ops {
                    if !rig.apply(o).is_ok() {
                        bad_prefix = true;
                    }
                }
                if bad_prefix {
                    rep.inconclusive("an operation of the scenario did not return Ok");
                    continue;
                }
                let b = rig.board.borrow();
                let segs = op_segments(&b.log);
                let (_, s, e) = *segs.last().unwrap();
                let seg = &b.log[s..e];
                let probs = check_segment(seg, *strict);
                let npulse = seg.iter().filter(|e| matches!(e, Ev::PinSet { pin: Pin::Rst, level: false })).count();
                rep.count("rst_edges", seg.iter().filter(|e| matches!(e, Ev::PinSet { pin: Pin::Rst, .. })).count() as u64);
                rep.count("pulses", npulse as u64);
                rep.count("events_examined", seg.len() as u64);
                rep.nontrivial(hash_str(&format!("{}|{}|{:?}|{}|{}", spec.name, ops_short(ops), d, entry, busy)));
                let case = case_json(spec, &ctx.variant, ops).set("entry", entry.as_str()).set("delay_us", d.map(|x| x as i64)).set("panel_busy_at_entry", busy);
                if rep.samples.len() < 6 {
                    rep.sample(case.clone().set("pulses", npulse));
                }
                for (class, detail) in probs {
                    let dtag = match d {
                        Some(0) => "delay_us=0",
                        _ => "any-delay",
                    };
                    // the idle-delay setting is only a tag when it matters (0 must not remove reset delays)
                    let _ = dtag;
                    rep.fail(Failure { panel: spec.name.into(), entry: entry.clone(), class: class.into(), tags: if busy { vec!["panel-busy".into()] } else { vec![] }, detail: format!("{} (delay_us={:?}, history: {}{})", detail, d, ops_short(ops), if busy { ", panel busy for three polls after each busy-raising command" } else { "" }), case: case.clone() });
                }
            }
        }
    }
    if ctx.variant == "v3" && ctx.only_panel.as_deref().map(|p| p == "epd12in48b_v2").unwrap_or(true) {
        crate::props::p12checks::c11(&mut rep);
    }
    rep
}
