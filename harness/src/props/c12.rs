//! C12 — drivers never retain or re-read a caller's buffer after the call returns.
//! Twin execution: run A keeps every buffer alive and intact; run B complements, frees and
//! re-allocates each buffer as soon as the borrowing call returns. The SPI logs must be identical.
//! (The same binary is run under AddressSanitizer / Miri by sanitize.py with --mode twin-b.)
use crate::hal::Ev;
use crate::json::J;
use crate::ops::*;
use crate::panels::*;
use crate::props::common::*;
use crate::prng::{hash_str, Rng};
use crate::report::{par_run, Failure, Report};
use crate::Ctx;

fn spi_trace(rig: &Rig) -> Vec<(u16, Vec<u8>)> {
    let b = rig.board.borrow();
    b.log
        .iter()
        .filter_map(|e| match e {
            Ev::Spi { levels, off, len, .. } => Some((*levels, b.bytes[*off as usize..(*off + *len) as usize].to_vec())),
            _ => None,
        })
        .collect()
}

fn run_hist(spec: &'static Spec, ops: &[Op], scribble: bool) -> Result<Rig, String> {
    run_hist_mode(spec, ops, scribble, false)
}

fn run_hist_mode(spec: &'static Spec, ops: &[Op], scribble: bool, keep_alive: bool) -> Result<Rig, String> {
    let mut rig = match Rig::new(spec, |_| {}, None, scribble) {
        Ok(r) => r,
        Err((o, _)) => return Err(o.short()),
    };
    rig.bufs.keep_alive = keep_alive;
    for o in ops {
        let out = rig.apply(o);
        if !out.is_ok() {
            return Err(format!("{} -> {}", o.short(), out.short()));
        }
    }
    Ok(rig)
}

/// One run of the retention scan: buffers are carved from a private arena (shifted by `shift` bytes), the
/// driver object's words are read before and after every call, and a word that *changed during a call* to an
/// address inside a buffer lent so far is a candidate: (op index, word index, buffer index, offset in buffer).
fn scan_run(spec: &'static Spec, ops: &[Op], shift: usize, words_scanned: &mut u64) -> Result<Vec<(usize, usize, usize, usize)>, String> {
    let mut rig = match Rig::new(spec, |_| {}, None, false) {
        Ok(r) => r,
        Err((o, _)) => return Err(o.short()),
    };
    let need: usize = ops.iter().map(|o| o.img.len() + o.img2.len() + 256).sum::<usize>() + 2 * Arena::GUARD + shift;
    rig.bufs.arena = Some(Arena::new(need, shift));
    let mut cands = Vec::new();
    for (i, o) in ops.iter().enumerate() {
        let before = rig.panel.raw_words();
        let out = rig.apply(o);
        if !out.is_ok() {
            return Err(format!("{} -> {}", o.short(), out.short()));
        }
        let after = rig.panel.raw_words();
        *words_scanned += after.len() as u64;
        let arena = rig.bufs.arena.as_ref().unwrap();
        for (wi, w) in after.iter().enumerate() {
            if before.get(wi) == Some(w) {
                continue;
            }
            for bi in 0..arena.lent.len() {
                let (lo, hi) = arena.range(bi);
                if *w >= lo && *w < hi {
                    cands.push((i, wi, bi, *w - lo));
                }
            }
        }
    }
    Ok(cands)
}

/// retention monitor (native runs). A candidate is reported only when a second run of the same history with
/// all buffers at other addresses shows the same word of the driver object changing in the same call to the
/// same offset of the same buffer - stale bytes in padding or recycled memory cannot do that.
/// Returns (lender op name, detail).
fn scan_retention(spec: &'static Spec, ops: &[Op], mut rep: Option<&mut Report>) -> Result<Option<(String, String)>, String> {
    let mut n = 0u64;
    let first = scan_run(spec, ops, 0, &mut n)?;
    if let Some(rep) = rep.as_deref_mut() {
        rep.count("driver_words_scanned", n);
    }
    if first.is_empty() {
        return Ok(None);
    }
    let second = scan_run(spec, ops, 8192 + 192, &mut n)?;
    let confirmed: Vec<&(usize, usize, usize, usize)> = first.iter().filter(|c| second.contains(c)).collect();
    if let Some(rep) = rep.as_deref_mut() {
        rep.count("retention_candidates", first.len() as u64);
        rep.count("retention_candidates_not_reproduced", (first.len() - confirmed.len()) as u64);
    }
    let Some((oi, wi, bi, off)) = confirmed.first().copied().copied() else {
        return Ok(None);
    };
    // which op lent buffer `bi`: buffers are lent in op order, two per op at most
    let mut k = 0usize;
    let mut lender = oi;
    for (i, o) in ops.iter().enumerate() {
        let nb = (o.img != Img::None) as usize + (o.img2 != Img::None) as usize;
        if bi < k + nb {
            lender = i;
            break;
        }
        k += nb;
    }
    let l = &ops[lender];
    Ok(Some((
        l.k.name().to_string(),
        format!("during call #{} ({}) word {} of the driver object became an address inside the buffer lent to call #{} ({}), offset {}; reproduced with all buffers at other addresses", oi + 1, ops[oi].short(), wi, lender + 1, l.short(), off),
    )))
}

/// Some(first differing transfer description) when the two traces differ
fn eval(spec: &'static Spec, syms: &[Sym], h: &[usize], mut rep: Option<&mut Report>) -> Result<Option<(String, String)>, String> {
    let ops = flatten(syms, h);
    let a = run_hist(spec, &ops, false)?;
    let ta = spi_trace(&a);
    // run B1: buffers complemented but kept allocated (deterministic); run B2: complemented,
    // freed and a junk buffer of the same size allocated (what the sanitizers watch)
    for keep_alive in [true, false] {
        let b = run_hist_mode(spec, &ops, true, keep_alive)?;
        let tb = spi_trace(&b);
        if let Some(rep) = rep.as_deref_mut() {
            rep.count("transfers_compared", ta.len() as u64);
            rep.count("buffer_bytes_lent", a.bufs.bytes_lent);
            rep.count("buffers_scribbled", b.bufs.junk.len() as u64);
        }
        if ta.len() != tb.len() {
            return Ok(Some(("length".into(), format!("run A made {} transfers, run B {}", ta.len(), tb.len()))));
        }
        for (i, (x, y)) in ta.iter().zip(tb.iter()).enumerate() {
            if x != y {
                // which op does transfer i belong to?
                let bb = b.board.borrow();
                let mut n = 0usize;
                let mut opi = 0u32;
                for e in &bb.log {
                    match e {
                        Ev::OpBegin { idx } => opi = *idx,
                        Ev::Spi { .. } => {
                            if n == i {
                                break;
                            }
                            n += 1;
                        }
                        _ => {}
                    }
                }
                let entry = if opi == 0 { "new".to_string() } else { ops[(opi - 1) as usize].k.name().to_string() };
                return Ok(Some((entry, format!("transfer {} differs: run A sent {:02X?}, run B (earlier buffers {}) sent {:02X?}", i, &x.1[..x.1.len().min(8)], if keep_alive { "complemented" } else { "complemented, freed, reallocated" }, &y.1[..y.1.len().min(8)]))));
            }
        }
    }
    Ok(None)
}

struct Case {
    spec: &'static Spec,
    h: Vec<usize>,
}

/// the common alphabet plus, for every partial entry point that takes a buffer, one window whose width is
/// not a multiple of 8 with a buffer of floor(width / 8) * height bytes (the size the drivers document and
/// assert): a driver that rounds the width up reads beyond the lent slice. The windows are only used here,
/// where memory accesses are judged, not addressing.
fn syms12(spec: &'static Spec) -> Vec<Sym> {
    let mut v = syms(spec);
    for pe in spec.partial {
        if pe.is_fill || pe.two_planes {
            continue;
        }
        for w in [Win::new(8, 8, 12, 4), Win::new(0, 0, 20, 3)] {
            let mut s: Sym = Vec::new();
            if spec.name == "epd2in9b_v4" {
                continue;
            }
            if let Some(k) = pe.after {
                s.push(Op::win(k, w, Img::Coded { salt: 0x12A, len: w.bytes() }));
            }
            s.push(Op::win(pe.k, w, Img::Coded { salt: 0x12B, len: w.bytes() }));
            v.push(s);
        }
    }
    v
}

pub fn run(ctx: &Ctx) -> Report {
    let mut cases = Vec::new();
    let mut rng = Rng::derive(ctx.seed, 0xC12);
    let twin_b_only = ctx.mode == "twin-b";
    for spec in panels_for(ctx) {
        let syms = syms12(spec);
        let small = matches!(spec.name, "epd1in02" | "epd1in54c" | "epd2in13bc" | "epd2in9d");
        if ctx.mode == "miri" && !small {
            continue;
        }
        let maxlen = if ctx.mode == "miri" {
            1
        } else if ctx.tier_thorough {
            3
        } else {
            2
        };
        for n in 1..=maxlen {
            for h in histories(spec, &syms, n) {
                // only histories that lend a buffer and then make another call can expose retention
                let ops = flatten(&syms, &h);
                let lends = ops.iter().filter(|o| o.img != Img::None).count();
                if lends == 0 || ops.len() < 2 {
                    continue;
                }
                if n == 3 && spec.w * spec.h > 300 * 400 && rng.below(8) != 0 {
                    continue;
                }
                cases.push(Case { spec, h });
            }
        }
        if maxlen == 2 {
            // quick tier: also [setting; lender; any] — a retained pointer may only be used in a
            // particular driver mode (quick refresh, non-default LUT / background)
            let setters: Vec<usize> = (0..syms.len()).filter(|i| syms[*i].iter().all(|o| matches!(o.k, K::SetRefresh | K::SetLut | K::SetBg))).collect();
            for h in histories(spec, &syms, 3) {
                if !setters.contains(&h[0]) {
                    continue;
                }
                let lender = syms[h[1]].iter().any(|o| o.img != Img::None);
                if !lender {
                    continue;
                }
                // thin out on the large panels
                if spec.w * spec.h > 300 * 400 && rng.below(4) != 0 {
                    continue;
                }
                cases.push(Case { spec, h });
            }
        }
        if ctx.mode == "miri" {
            // Miri is ~4 orders of magnitude slower: only pairs whose buffers are small, those in
            // which both symbols lend a buffer first (a retained pointer is re-read by the second)
            cases.retain(|c| !std::ptr::eq(c.spec, spec));
            let mut pairs = Vec::new();
            for h in histories(spec, &syms, 2) {
                let ops = flatten(&syms, &h);
                let small_ops = ops.iter().all(|o| o.img.len() <= 64 && !matches!(o.k, K::UpdateFrame | K::UpdateAndDisplay | K::Clear | K::ClearPartial));
                let first_lends = syms[h[0]].iter().any(|o| o.img != Img::None);
                if small_ops && first_lends {
                    let second_lends = syms[h[1]].iter().any(|o| o.img != Img::None);
                    pairs.push((if second_lends { 0 } else { 1 }, Case { spec, h }));
                }
            }
            pairs.sort_by_key(|p| p.0);
            let limit = if ctx.tier_thorough { 60 } else { 5 };
            cases.extend(pairs.into_iter().take(limit).map(|p| p.1));
        }
    }
    if ctx.shard.1 > 1 {
        let (i, n) = ctx.shard;
        cases = cases.into_iter().enumerate().filter(|(k, _)| k % n == i).map(|(_, c)| c).collect();
    }
    let variant = ctx.variant.clone();
    if twin_b_only || ctx.mode == "miri" {
        // sanitizer mode: only execute run B (scribble + free + re-allocate); the sanitizer is the oracle
        let threads = if ctx.mode == "miri" { 1 } else { ctx.threads };
        return par_run(&cases, threads, |_, c, rep| {
            let spec = c.spec;
            let syms = syms12(spec);
            let ops = flatten(&syms, &c.h);
            rep.eval(spec.name);
            match run_hist(spec, &ops, true) {
                Ok(r) => {
                    rep.count("transfers_executed", r.board.borrow().spi_writes);
                    rep.nontrivial(hash_str(&format!("{}|{}", spec.name, ops_short(&ops))));
                    if rep.samples.len() < 6 {
                        rep.sample(case_json(spec, &variant, &ops));
                    }
                }
                Err(e) => {
                    rep.count("histories_with_failing_op", 1);
                    rep.note(&format!("op failed (not judged here): {} {}", spec.name, e));
                }
            }
        });
    }
    let mut rep12 = Report::new();
    if ctx.variant == "v3" && ctx.only_panel.as_deref().map(|p| p == "epd12in48b_v2").unwrap_or(true) && ctx.shard.1 <= 1 {
        crate::props::p12checks::c12(&mut rep12);
    }
    let mut out = par_run(&cases, ctx.threads, |_, c, rep| {
        let spec = c.spec;
        let syms = syms12(spec);
        let ops = flatten(&syms, &c.h);
        rep.eval(spec.name);
        if let Ok(Some((lender, detail))) = scan_retention(spec, &ops, Some(rep)) {
            rep.fail(Failure {
                panel: spec.name.into(),
                entry: lender,
                class: "pointer-retained".into(),
                tags: vec![],
                detail: format!("{} | seen in: {}", detail, ops_short(&ops)),
                case: case_json(spec, &variant, &ops),
            });
        }
        match eval(spec, &syms, &c.h, Some(rep)) {
            Err(e) => {
                rep.count("histories_with_failing_op", 1);
                rep.note(&format!("op failed (not judged here): {} {}", spec.name, e));
            }
            Ok(None) => {
                rep.nontrivial(hash_str(&format!("{}|{}", spec.name, ops_short(&ops))));
                if rep.samples.len() < 8 && c.h.len() >= 2 {
                    rep.sample(case_json(spec, &variant, &ops).set("verdict", "traces identical"));
                }
            }
            Ok(Some((entry, detail))) => {
                rep.nontrivial(hash_str(&format!("{}|{}", spec.name, ops_short(&ops))));
                // Native detection depends on the allocator handing the freed block out again, so
                // history minimisation is not reproducible here; name the semantic cause instead:
                // the last buffer-lending operation before the call whose traffic differs.
                let lender = {
                    let mut l = "none".to_string();
                    for o in &ops {
                        if o.k.name() == entry && l != "none" {
                            break;
                        }
                        if o.img != Img::None {
                            l = o.k.name().to_string();
                        }
                    }
                    l
                };
                rep.fail(Failure {
                    panel: spec.name.into(),
                    entry,
                    class: "wire-depends-on-dead-buffer".into(),
                    tags: vec![format!("lender:{}", lender)],
                    detail: format!("{} | seen in: {}", detail, ops_short(&ops)),
                    case: case_json(spec, &variant, &ops),
                });
            }
        }
    });
    out.merge(rep12);
    out
}
