//! C13 — buffer sizing: shipped buffer types and run-time buffers match the panel planes.
//!
//! Reference: bytes = planes * rows * ceil(width * bits_per_pixel / 8), written here independently of
//! `buffer_len`, `line_bytes` and the BYTECOUNT expressions of the aliases. Observed: `size()`,
//! `buffer().len()`, buffer contents, the pointers/lengths of `bw_buffer()`/`chromatic_buffer()`,
//! the result of `VarDisplay::new` for slices just below / at / above the required length, and
//! real `set_pixel` calls on accepted run-time buffers.
use crate::json::J;
use crate::prng::{hash_str, mix64};
use crate::report::{par_run, Failure, Report};
use crate::Ctx;
use embedded_graphics_core::prelude::*;
use epd_waveshare::color::{Color, ColorType, OctColor, TriColor};
use epd_waveshare::graphics::VarDisplay;
use std::panic::{catch_unwind, AssertUnwindSafe};

/// the reference formula
fn required(planes: usize, bpp: usize, w: usize, h: usize) -> usize {
    let row = (w * bpp) / 8 + if (w * bpp) % 8 != 0 { 1 } else { 0 };
    planes * h * row
}

fn h64(v: &[u64]) -> u64 {
    let mut h = 0xC13u64;
    for &x in v {
        h = mix64(h ^ x.wrapping_mul(0x9E3779B97F4A7C15));
    }
    h
}

fn panic_msg(p: Box<dyn std::any::Any + Send>) -> String {
    if let Some(s) = p.downcast_ref::<&str>() {
        s.to_string()
    } else if let Some(s) = p.downcast_ref::<String>() {
        s.clone()
    } else {
        "<non-string panic payload>".to_string()
    }
}

// ------------------------------------------------------------------------------------------------
// shipped aliases
// ------------------------------------------------------------------------------------------------

struct AliasObs {
    size: (u32, u32),
    len: usize,
    first_nonzero: Option<usize>,
    /// (bw offset, bw len, chromatic offset, chromatic len) relative to buffer().as_ptr()
    halves: Option<[i64; 4]>,
}

struct AliasRow {
    name: &'static str,
    module: &'static str,
    /// the driver module's WIDTH / HEIGHT constants
    w: u32,
    h: u32,
    planes: usize,
    bpp: usize,
    obs: fn() -> AliasObs,
}

macro_rules! mono {
    ($name:expr, $m:ident, $t:ident, $bpp:expr) => {
        AliasRow {
            name: $name,
            module: stringify!($m),
            w: epd_waveshare::$m::WIDTH,
            h: epd_waveshare::$m::HEIGHT,
            planes: 1,
            bpp: $bpp,
            obs: || {
                let d = Box::new(epd_waveshare::$m::$t::default());
                let s = d.size();
                let b = d.buffer();
                AliasObs { size: (s.width, s.height), len: b.len(), first_nonzero: b.iter().position(|&x| x != 0), halves: None }
            },
        }
    };
}
macro_rules! tri {
    ($name:expr, $m:ident, $t:ident) => {
        AliasRow {
            name: $name,
            module: stringify!($m),
            w: epd_waveshare::$m::WIDTH,
            h: epd_waveshare::$m::HEIGHT,
            planes: 2,
            bpp: 1,
            obs: || {
                let d = Box::new(epd_waveshare::$m::$t::default());
                let s = d.size();
                let b = d.buffer();
                let bw = d.bw_buffer();
                let ch = d.chromatic_buffer();
                let base = b.as_ptr() as i64;
                AliasObs {
                    size: (s.width, s.height),
                    len: b.len(),
                    first_nonzero: b.iter().position(|&x| x != 0),
                    halves: Some([bw.as_ptr() as i64 - base, bw.len() as i64, ch.as_ptr() as i64 - base, ch.len() as i64]),
                }
            },
        }
    };
}

/// colour type per alias from DESIGN appendix A (not from the alias definition)
fn aliases() -> Vec<AliasRow> {
    vec![
        mono!("Display1in02", epd1in02, Display1in02, 1),
        mono!("Display1in54", epd1in54, Display1in54, 1),
        mono!("epd1in54_v2::Display1in54", epd1in54_v2, Display1in54, 1),
        mono!("Display1in54b", epd1in54b, Display1in54b, 1),
        mono!("Display1in54c", epd1in54c, Display1in54c, 1),
        mono!("Display2in13", epd2in13_v2, Display2in13, 1),
        tri!("Display2in13b", epd2in13b_v4, Display2in13b),
        tri!("Display2in13bc", epd2in13bc, Display2in13bc),
        tri!("Display2in66b", epd2in66b, Display2in66b),
        mono!("epd2in7::Display2in7", epd2in7, Display2in7, 1),
        mono!("epd2in7_v2::Display2in7", epd2in7_v2, Display2in7, 1),
        mono!("Display2in7b", epd2in7b, Display2in7b, 1),
        mono!("epd2in9::Display2in9", epd2in9, Display2in9, 1),
        mono!("epd2in9_v2::Display2in9", epd2in9_v2, Display2in9, 1),
        tri!("Display2in9b", epd2in9b_v4, Display2in9b),
        mono!("Display2in9bc", epd2in9bc, Display2in9bc, 1),
        mono!("Display2in9d", epd2in9d, Display2in9d, 1),
        mono!("Display3in7", epd3in7, Display3in7, 1),
        mono!("Display4in2", epd4in2, Display4in2, 1),
        mono!("Display5in65f", epd5in65f, Display5in65f, 4),
        mono!("epd5in83_v2::Display5in83", epd5in83_v2, Display5in83, 1),
        tri!("epd5in83b_v2::Display5in83", epd5in83b_v2, Display5in83),
        mono!("Display7in3f", epd7in3f, Display7in3f, 4),
        mono!("epd7in5::Display7in5", epd7in5, Display7in5, 1),
        mono!("epd7in5_hd::Display7in5", epd7in5_hd, Display7in5, 1),
        mono!("epd7in5_v2::Display7in5", epd7in5_v2, Display7in5, 1),
        tri!("epd7in5b_v2::Display7in5", epd7in5b_v2, Display7in5),
        tri!("epd7in5b_v3::Display7in5", epd7in5b_v3, Display7in5),
    ]
}

fn alias_check(a: &AliasRow, rep: &mut Report) {
    rep.eval(a.name);
    rep.nontrivial(h64(&[hash_str(a.name), 1]));
    let req = required(a.planes, a.bpp, a.w as usize, a.h as usize);
    let case = J::obj()
        .set("alias", a.name)
        .set("module", a.module)
        .set("module_width", a.w)
        .set("module_height", a.h)
        .set("planes", a.planes)
        .set("bits_per_pixel_per_plane", a.bpp)
        .set("model_bytes", req);
    let fail = |rep: &mut Report, entry: &str, class: &str, tags: Vec<String>, detail: String| {
        rep.fail(Failure { panel: a.name.to_string(), entry: entry.to_string(), class: class.to_string(), tags, detail, case: case.clone() });
    };
    let o = match catch_unwind(a.obs) {
        Ok(o) => o,
        Err(p) => {
            rep.count("panics_caught", 1);
            fail(rep, "default", "alias-length", vec!["panic".into()], format!("{}::default()/accessors panicked: {}", a.name, panic_msg(p)));
            return;
        }
    };
    rep.count("alias_checks", 1);
    rep.count("alias_bytes_checked_zero", o.len as u64);
    if o.size != (a.w, a.h) {
        let t = if o.size == (a.h, a.w) { "swapped" } else { "differs" };
        fail(
            rep,
            "size",
            "alias-size",
            vec![t.into()],
            format!("{}: size() = {}x{} but epd_waveshare::{}::WIDTH x HEIGHT = {}x{}", a.name, o.size.0, o.size.1, a.module, a.w, a.h),
        );
    }
    if o.len != req {
        let t = if o.len < req { "too-short" } else { "too-long" };
        fail(
            rep,
            "buffer",
            "alias-length",
            vec![t.into()],
            format!(
                "{}: buffer().len() = {} but {} plane(s) x {} rows x ceil({}*{}/8) = {}",
                a.name, o.len, a.planes, a.h, a.w, a.bpp, req
            ),
        );
    }
    if let Some(i) = o.first_nonzero {
        fail(rep, "default", "alias-not-zero", vec![], format!("{}: default buffer byte {} is not zero", a.name, i));
    }
    if a.planes == 2 {
        rep.count("halves_checks", 1);
        match o.halves {
            Some([bo, bl, co, cl]) => {
                let half = (o.len / 2) as i64;
                let mut bad = Vec::new();
                if bl != cl {
                    bad.push("unequal-length");
                }
                if bo == half && co == 0 && bo != co {
                    bad.push("order-swapped");
                } else {
                    if bo != 0 || bl != half {
                        bad.push("bw-half");
                    }
                    if co != half || cl != o.len as i64 - half {
                        bad.push("chromatic-half");
                    }
                }
                if !bad.is_empty() {
                    fail(
                        rep,
                        "bw_buffer/chromatic_buffer",
                        "halves",
                        bad.iter().map(|s| s.to_string()).collect(),
                        format!(
                            "{}: buffer of {} bytes; bw_buffer() = [{}..{}), chromatic_buffer() = [{}..{}); expected [0..{}) and [{}..{})",
                            a.name,
                            o.len,
                            bo,
                            bo + bl,
                            co,
                            co + cl,
                            half,
                            half,
                            o.len
                        ),
                    );
                }
            }
            None => {}
        }
    }
    if ["Display2in13b", "Display4in2", "Display5in65f", "epd7in5b_v2::Display7in5"].contains(&a.name) {
      rep.sample(
        case.clone()
            .set("observed_size", vec![o.size.0, o.size.1])
            .set("observed_len", o.len)
            .set("observed_all_zero", o.first_nonzero.is_none())
            .set("observed_halves", o.halves.map(|h| h.to_vec())),
      );
    }
}

// ------------------------------------------------------------------------------------------------
// VarDisplay
// ------------------------------------------------------------------------------------------------

trait Cc: ColorType + PixelColor + Copy + 'static {
    const PLANES: usize;
    const BPP: usize;
    const TAG: &'static str;
    const GROUP: &'static str;
    fn zero() -> Self;
    /// colours whose encoding has at least one 1 bit (observable on a zeroed buffer)
    fn nonzero() -> &'static [Self];
    fn name(self) -> &'static str;
    /// coarse width class relevant for this colour type's row padding
    fn wtag(w: u32) -> &'static str;
}
impl Cc for Color {
    const PLANES: usize = 1;
    const BPP: usize = 1;
    const TAG: &'static str = "color";
    const GROUP: &'static str = "VarDisplay<Color>";
    fn zero() -> Self {
        Color::Black
    }
    fn nonzero() -> &'static [Self] {
        &[Color::White]
    }
    fn name(self) -> &'static str {
        match self {
            Color::Black => "Black",
            Color::White => "White",
        }
    }
    fn wtag(w: u32) -> &'static str {
        if w % 8 == 0 {
            "w%8==0"
        } else {
            "w%8!=0"
        }
    }
}
impl Cc for TriColor {
    const PLANES: usize = 2;
    const BPP: usize = 1;
    const TAG: &'static str = "tricolor";
    const GROUP: &'static str = "VarDisplay<TriColor>";
    fn zero() -> Self {
        TriColor::Black
    }
    fn nonzero() -> &'static [Self] {
        &[TriColor::White, TriColor::Chromatic]
    }
    fn name(self) -> &'static str {
        match self {
            TriColor::Black => "Black",
            TriColor::White => "White",
            TriColor::Chromatic => "Chromatic",
        }
    }
    /// w%8 in 1..=4 is where ceil(2w/8) != 2*ceil(w/8)
    fn wtag(w: u32) -> &'static str {
        match w % 8 {
            0 => "w%8==0",
            1..=4 => "w%8!=0",
            _ => "w%8>=5",
        }
    }
}
impl Cc for OctColor {
    const PLANES: usize = 1;
    const BPP: usize = 4;
    const TAG: &'static str = "octcolor";
    const GROUP: &'static str = "VarDisplay<OctColor>";
    fn zero() -> Self {
        OctColor::Black
    }
    fn nonzero() -> &'static [Self] {
        &[OctColor::HiZ, OctColor::White]
    }
    fn name(self) -> &'static str {
        match self {
            OctColor::Black => "Black",
            OctColor::White => "White",
            OctColor::HiZ => "HiZ",
            _ => "other",
        }
    }
    fn wtag(w: u32) -> &'static str {
        if w % 2 == 0 {
            "w%2==0"
        } else {
            "w%2!=0"
        }
    }
}

/// one (colour type, w, h) geometry: all supplied lengths
fn var_case<C: Cc>(w: u32, h: u32, every_pixel: bool, miri: bool, rep: &mut Report) {
    let req = required(C::PLANES, C::BPP, w as usize, h as usize);
    // exact, one short, one long, and clearly over-long slices (a caller may hand in a larger scratch area:
    // the planes the accessors expose must still be the planes drawing goes to)
    let mut lens = vec![req, req + 1, req + 2, req + 7, 2 * req + 3, 0];
    if req > 0 {
        lens.push(req - 1);
    }
    lens.sort();
    lens.dedup();
    let gh = hash_str(C::GROUP);
    for &len in &lens {
        rep.eval(C::GROUP);
        rep.nontrivial(h64(&[gh, w as u64, h as u64, len as u64]));
        let case = J::obj()
            .set("colour_type", C::GROUP)
            .set("width", w)
            .set("height", h)
            .set("supplied_len", len)
            .set("model_required_len", req)
            .set("bwrbit", false);
        let base_tags = || vec![C::TAG.to_string(), C::wtag(w).to_string()];
        let fail = |rep: &mut Report, entry: &str, class: &str, tags: Vec<String>, detail: String, extra: Option<(&str, J)>| {
            let mut c = case.clone();
            if let Some((k, v)) = extra {
                c.put(k, v);
            }
            rep.fail(Failure { panel: C::GROUP.to_string(), entry: entry.to_string(), class: class.to_string(), tags, detail, case: c });
        };
        let mut backing = vec![0u8; len];
        // constructor
        let r = catch_unwind(AssertUnwindSafe(|| VarDisplay::<C>::new(w, h, &mut backing, false).map(|d| d.buffer().len()).ok()));
        rep.count("vardisplay_new_calls", 1);
        let accepted = match r {
            Err(p) => {
                rep.count("panics_caught", 1);
                let mut t = base_tags();
                t.push("panic".into());
                let class = if len >= req { "vardisplay-rejects-sufficient" } else { "vardisplay-accepts-too-small" };
                fail(rep, "VarDisplay::new", class, t, format!("{}::new({}, {}, len {}) panicked: {}", C::GROUP, w, h, len, panic_msg(p)), None);
                continue;
            }
            Ok(a) => a,
        };
        let should = len >= req;
        match (accepted, should) {
            (Some(_), false) => fail(
                rep,
                "VarDisplay::new",
                "vardisplay-accepts-too-small",
                base_tags(),
                format!(
                    "{}::new({}, {}, slice of {} bytes) returned Ok although {} plane(s) x {} rows x ceil({}*{}/8) = {} bytes are needed",
                    C::GROUP,
                    w,
                    h,
                    len,
                    C::PLANES,
                    h,
                    w,
                    C::BPP,
                    req
                ),
                None,
            ),
            (None, true) => fail(
                rep,
                "VarDisplay::new",
                "vardisplay-rejects-sufficient",
                base_tags(),
                format!("{}::new({}, {}, slice of {} bytes) returned Err(BufferTooSmall) although {} bytes suffice", C::GROUP, w, h, len, req),
                None,
            ),
            _ => {}
        }
        rep.count(if accepted.is_some() { "vardisplay_accepted" } else { "vardisplay_rejected" }, 1);
        let Some(exposed) = accepted else { continue };
        rep.count("exposed_length_checks", 1);
        if exposed != req {
            let mut t = base_tags();
            t.push(if exposed < req { "too-short".into() } else { "too-long".into() });
            fail(
                rep,
                "buffer",
                "exposed-length",
                t,
                format!("{} {}x{} on a {}-byte slice: buffer().len() = {}, model requires exactly {}", C::GROUP, w, h, len, exposed, req),
                None,
            );
        }
        if w == 0 || h == 0 {
            continue;
        }
        // every pixel of an accepted buffer can be drawn (quick: last row / last column / corners)
        let mut pts: Vec<(u32, u32)> = Vec::new();
        if every_pixel {
            for y in 0..h {
                for x in 0..w {
                    pts.push((x, y));
                }
            }
        } else {
            for x in 0..w {
                pts.push((x, h - 1));
            }
            for y in 0..h {
                pts.push((w - 1, y));
            }
            pts.push((0, 0));
            pts.sort();
            pts.dedup();
        }
        let exposed_c = exposed.min(len);
        'pts: for &(x, y) in &pts {
            let mut colours: Vec<C> = C::nonzero().to_vec();
            colours.push(C::zero());
            for &c in &colours {
                rep.count("pixels_drawn", 1);
                let r = catch_unwind(AssertUnwindSafe(|| {
                    if let Ok(mut d) = VarDisplay::<C>::new(w, h, &mut backing, false) {
                        d.set_pixel(Pixel(Point::new(x as i32, y as i32), c));
                    }
                }));
                let last = if x == w - 1 && y == h - 1 {
                    "last-row+last-column"
                } else if y == h - 1 {
                    "last-row"
                } else if x == w - 1 {
                    "last-column"
                } else {
                    "interior"
                };
                if let Err(p) = r {
                    rep.count("panics_caught", 1);
                    let mut t = base_tags();
                    t.push("panic".into());
                    fail(
                        rep,
                        "set_pixel",
                        "last-pixel-panics",
                        t,
                        format!(
                            "{} {}x{} accepted on a {}-byte slice (exposes {}): set_pixel(({},{}), {}) [{}] panicked: {}",
                            C::GROUP,
                            w,
                            h,
                            len,
                            exposed,
                            x,
                            y,
                            c.name(),
                            last,
                            panic_msg(p)
                        ),
                        Some(("point", J::from(vec![x, y]))),
                    );
                    for b in backing.iter_mut() {
                        *b = 0;
                    }
                    if miri {
                        // a caught panic costs ~0.1 s under Miri: one witness per (geometry, length)
                        break 'pts;
                    }
                    continue;
                }
                // inside the slice the accessor exposes
                if let Some(i) = backing[exposed_c..].iter().position(|&b| b != 0) {
                    let mut t = base_tags();
                    t.push("wrote-outside-exposed".into());
                    fail(
                        rep,
                        "set_pixel",
                        "last-pixel-panics",
                        t,
                        format!(
                            "{} {}x{} on a {}-byte slice: set_pixel(({},{}), {}) changed byte {} which is beyond buffer().len() = {}",
                            C::GROUP,
                            w,
                            h,
                            len,
                            x,
                            y,
                            c.name(),
                            exposed_c + i,
                            exposed
                        ),
                        Some(("point", J::from(vec![x, y]))),
                    );
                    for b in backing.iter_mut() {
                        *b = 0;
                    }
                    continue;
                }
                let ones: u32 = backing[..exposed_c].iter().map(|b| b.count_ones()).sum();
                let is_zero_colour = c.name() == C::zero().name();
                if (!is_zero_colour && ones == 0) || (is_zero_colour && ones != 0) {
                    let mut t = base_tags();
                    t.push("no-effect".into());
                    fail(
                        rep,
                        "set_pixel",
                        "last-pixel-panics",
                        t,
                        format!(
                            "{} {}x{} on a {}-byte slice: set_pixel(({},{}), {}) left {} one-bits in the exposed buffer (drawn on an all-zero buffer; the zero colour is drawn last and must restore it)",
                            C::GROUP,
                            w,
                            h,
                            len,
                            x,
                            y,
                            c.name(),
                            ones
                        ),
                        Some(("point", J::from(vec![x, y]))),
                    );
                    for b in backing.iter_mut() {
                        *b = 0;
                    }
                }
            }
        }
        if w == 13 && h == 5 && (len == req || C::PLANES == 2) {
            rep.sample(case.clone().set("accepted", true).set("exposed_len", exposed).set("points_tried", pts.len()));
        }
    }
}

// ------------------------------------------------------------------------------------------------
// buffer_len
// ------------------------------------------------------------------------------------------------

fn buffer_len_row(w: usize, hs: &[usize], rep: &mut Report) {
    let mut n = 0u64;
    let r = catch_unwind(AssertUnwindSafe(|| {
        for &h in hs {
            let got = epd_waveshare::buffer_len(w, h);
            let want = required(1, 1, w, h);
            n += 1;
            if got != want {
                rep.fail(Failure {
                    panel: "buffer_len".into(),
                    entry: "buffer_len".into(),
                    class: "buffer_len".into(),
                    tags: vec![if w % 8 == 0 { "w%8==0".to_string() } else { "w%8!=0".to_string() }, if got < want { "too-small".into() } else { "too-big".into() }],
                    detail: format!("buffer_len({}, {}) = {}, expected ceil({}/8)*{} = {}", w, h, got, w, h, want),
                    case: J::obj().set("width", w).set("height", h),
                });
            }
        }
    }));
    if let Err(p) = r {
        rep.count("panics_caught", 1);
        rep.fail(Failure {
            panel: "buffer_len".into(),
            entry: "buffer_len".into(),
            class: "buffer_len".into(),
            tags: vec!["panic".into()],
            detail: format!("buffer_len({}, _) panicked: {}", w, panic_msg(p)),
            case: J::obj().set("width", w),
        });
    }
    rep.evaluations += n;
    *rep.per_panel.entry("buffer_len".into()).or_insert(0) += n;
    rep.count("buffer_len_pairs_checked", n);
    rep.count("nontrivial_items", n);
    rep.nontrivial(h64(&[0xB0F, w as u64]));
    if w == 122 {
        rep.sample(J::obj().set("buffer_len_width", w).set("height", 250).set("observed", epd_waveshare::buffer_len(122, 250)).set("model", required(1, 1, 122, 250)));
    }
}

enum Case {
    Alias(usize),
    Var(u8, u32, u32),
    BufLen(usize),
}

/// geometries near the numeric limits of the coordinate type: acceptance must still follow the closed
/// form (computed in u128), and nothing may panic
fn huge_case<C: Cc>(rep: &mut Report) {
    let ws: [u32; 13] = [1 << 24, 1 << 28, (1 << 29) - 1, 1 << 29, (1 << 30) - 1, 1 << 30, (1 << 31) - 1, 1 << 31, u32::MAX - 8, u32::MAX - 7, u32::MAX - 6, u32::MAX - 1, u32::MAX];
    let mut backing = [0u8; 32];
    for &(w, h) in ws.iter().flat_map(|w| [(*w, 0u32), (*w, 1), (*w, 2), (0, *w), (1, *w), (8, *w)]).collect::<Vec<_>>().iter() {
        for len in [0usize, 1, 16, 32] {
            rep.eval(C::GROUP);
            rep.count("huge_geometries_checked", 1);
            let req: u128 = C::PLANES as u128 * ((w as u128 * C::BPP as u128 + 7) / 8) * h as u128;
            let want_ok = (len as u128) >= req;
            rep.nontrivial(h64(&[hash_str(C::GROUP), 0x4875, w as u64, h as u64, len as u64]));
            let r = catch_unwind(AssertUnwindSafe(|| VarDisplay::<C>::new(w, h, &mut backing[..len], false).map(|d| d.buffer().len())));
            let case = J::obj().set("colour_type", C::GROUP).set("width", w).set("height", h).set("supplied_len", len).set("model_required_len", format!("{}", req));
            let mut fail = |class: &str, tag: &str, detail: String| {
                rep.fail(Failure { panel: C::GROUP.into(), entry: "VarDisplay::new".into(), class: class.into(), tags: vec![C::TAG.to_string(), "huge".into(), tag.into()], detail, case: case.clone() });
            };
            match r {
                Err(p) => fail("vardisplay-accepts-too-small", "panic", format!("{}::new({}, {}, slice of {} bytes) panicked: {}", C::GROUP, w, h, len, panic_msg(p))),
                Ok(Ok(exposed)) => {
                    if !want_ok {
                        fail("vardisplay-accepts-too-small", "accepted", format!("{}::new({}, {}, slice of {} bytes) returned Ok although {} bytes are required", C::GROUP, w, h, len, req));
                    } else if exposed as u128 != req {
                        fail("exposed-length", "huge", format!("{}::new({}, {}, slice of {} bytes): buffer().len() = {}, required {}", C::GROUP, w, h, len, exposed, req));
                    }
                }
                Ok(Err(_)) => {
                    if want_ok {
                        fail("vardisplay-rejects-sufficient", "rejected", format!("{}::new({}, {}, slice of {} bytes) returned Err although {} bytes suffice", C::GROUP, w, h, len, req));
                    }
                }
            }
        }
    }
}

pub fn run(ctx: &Ctx) -> Report {
    let miri = ctx.mode == "miri";
    let al = aliases();
    let mut cases = Vec::new();
    for i in 0..al.len() {
        cases.push(Case::Alias(i));
    }
    let vmax = if miri { 8 } else { 64 };
    for k in 0..3u8 {
        for w in 0..=vmax {
            for h in 0..=vmax {
                cases.push(Case::Var(k, w, h));
            }
        }
    }
    let bmax = if miri { 64 } else { 2048 };
    let hs: Vec<usize> = if ctx.tier_thorough || miri {
        (0..=bmax).collect()
    } else {
        let mut v: Vec<usize> = (0..=16).collect();
        v.extend([63, 64, 65, 100, 127, 128, 129, 250, 255, 256, 257, 296, 480, 528, 984, 1000, 1023, 1024, 1025, 2047, 2048]);
        let mut s = 17;
        while s < 2048 {
            v.push(s);
            s += 97;
        }
        v.sort();
        v.dedup();
        v
    };
    for w in 0..=bmax {
        cases.push(Case::BufLen(w));
    }
    let every_pixel = ctx.tier_thorough && !miri;
    let cases = crate::report::shard(cases, ctx.shard);
    let threads = if miri { 1 } else { ctx.threads };
    let mut rep = par_run(&cases, threads, |_i, c, rep| match c {
        Case::Alias(i) => alias_check(&al[*i], rep),
        Case::Var(0, w, h) => var_case::<Color>(*w, *h, every_pixel, miri, rep),
        Case::Var(1, w, h) => var_case::<TriColor>(*w, *h, every_pixel, miri, rep),
        Case::Var(_, w, h) => var_case::<OctColor>(*w, *h, every_pixel, miri, rep),
        Case::BufLen(w) => buffer_len_row(*w, &hs, rep),
    });
    if ctx.shard.0 == 0 && !miri {
        huge_case::<Color>(&mut rep);
        huge_case::<TriColor>(&mut rep);
        huge_case::<OctColor>(&mut rep);
    }
    rep.note("reference formula: planes * rows * ceil(width*bits_per_pixel/8); alias geometry from the driver module's WIDTH/HEIGHT constants, colour type per alias from DESIGN appendix A");
    rep.note("distinct_nontrivial hashes every alias, every (colour type, w, h, supplied length) VarDisplay case and one entry per buffer_len width; buffer_len (w,h) pairs are counted exactly in counters.buffer_len_pairs_checked");
    rep.note(if every_pixel {
        "thorough: every pixel of every accepted VarDisplay is drawn in every non-zero colour and then in the zero colour"
    } else {
        "quick/miri: last row, last column and origin of every accepted VarDisplay are drawn in every non-zero colour and then in the zero colour"
    });
    if miri {
        rep.note("mode miri: w,h in 0..=8, buffer_len 0..=64, drawing of an accepted buffer stops at its first panicking pixel");
    }
    rep.note("tag w%8!=0 on VarDisplay<TriColor> means w%8 in 1..=4 (where ceil(2w/8) != 2*ceil(w/8)); w%8 in 5..=7 is tagged w%8>=5");
    rep
}
