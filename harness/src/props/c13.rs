//! c13 — stub, to be implemented
use crate::report::Report;
use crate::Ctx;
pub fn run(_ctx: &Ctx) -> Report {
    Report::new()
}
