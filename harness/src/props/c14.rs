//! C14 — colour encodings and conversions are total, mutually consistent and round-trip.
//!
//! Every public conversion / encoding function of src/color.rs is executed over its whole (finite)
//! input domain and each result is compared with an independent table model written below from the
//! documented encodings (1 = white MSB-first bits, ACeP 4-bit codes and palette, two-plane
//! tricolour). Panics are caught; the only accepted panic is `Color::from(u8)` for bytes > 1.
use crate::json::J;
use crate::prng::mix64;
use crate::report::{par_run, Failure, Report};
use crate::Ctx;
use embedded_graphics_core::pixelcolor::raw::{RawU1, RawU2, RawU4};
use embedded_graphics_core::pixelcolor::{BinaryColor, Rgb555, Rgb565, Rgb888};
use embedded_graphics_core::prelude::*;
use epd_waveshare::color::{Color, ColorType, OctColor, TriColor};
use std::panic::{catch_unwind, AssertUnwindSafe};

// ------------------------------------------------------------------------------------------------
// independent tables
// ------------------------------------------------------------------------------------------------

const OCT: [OctColor; 8] = [
    OctColor::Black,
    OctColor::White,
    OctColor::Green,
    OctColor::Blue,
    OctColor::Red,
    OctColor::Yellow,
    OctColor::Orange,
    OctColor::HiZ,
];
const OCT_NAME: [&str; 8] = ["Black", "White", "Green", "Blue", "Red", "Yellow", "Orange", "HiZ"];
/// ACeP seven-colour palette + the library's grey for HiZ, index = 4-bit code
const PAL: [(u8, u8, u8); 8] = [
    (0x00, 0x00, 0x00),
    (0xff, 0xff, 0xff),
    (0x00, 0xff, 0x00),
    (0x00, 0x00, 0xff),
    (0xff, 0x00, 0x00),
    (0xff, 0xff, 0x00),
    (0xff, 0x80, 0x00),
    (0x80, 0x80, 0x80),
];
fn oct_idx(c: OctColor) -> usize {
    match c {
        OctColor::Black => 0,
        OctColor::White => 1,
        OctColor::Green => 2,
        OctColor::Blue => 3,
        OctColor::Red => 4,
        OctColor::Yellow => 5,
        OctColor::Orange => 6,
        OctColor::HiZ => 7,
    }
}
const BW: [Color; 2] = [Color::Black, Color::White];
fn bw_name(c: Color) -> &'static str {
    match c {
        Color::Black => "Black",
        Color::White => "White",
    }
}
const TRI: [TriColor; 3] = [TriColor::Black, TriColor::White, TriColor::Chromatic];
fn tri_name(c: TriColor) -> &'static str {
    match c {
        TriColor::Black => "Black",
        TriColor::White => "White",
        TriColor::Chromatic => "Chromatic",
    }
}

fn h64(v: &[u64]) -> u64 {
    let mut h = 0xC14u64;
    for &x in v {
        h = mix64(h ^ x.wrapping_mul(0x9E3779B97F4A7C15));
    }
    h
}

fn panic_msg(p: Box<dyn std::any::Any + Send>) -> String {
    if let Some(s) = p.downcast_ref::<&str>() {
        s.to_string()
    } else if let Some(s) = p.downcast_ref::<String>() {
        s.clone()
    } else {
        "<non-string panic payload>".to_string()
    }
}

fn guard<T>(f: impl FnOnce() -> T) -> Result<T, String> {
    catch_unwind(AssertUnwindSafe(f)).map_err(panic_msg)
}

fn bad(rep: &mut Report, group: &str, entry: &str, class: &str, tags: &[&str], detail: String, case: J) {
    rep.fail(Failure {
        panel: group.to_string(),
        entry: entry.to_string(),
        class: class.to_string(),
        tags: tags.iter().map(|s| s.to_string()).collect(),
        detail,
        case,
    });
}

/// book-keeping for one checked input of a small table
fn tick(rep: &mut Report, group: &str, id: u64, input: u64) {
    rep.eval(group);
    rep.nontrivial(h64(&[id, input]));
    rep.count("conversions_checked", 1);
}

// ------------------------------------------------------------------------------------------------
// part A: small exhaustive tables
// ------------------------------------------------------------------------------------------------

fn color_u8(rep: &mut Report) {
    for v in 0..=255u8 {
        tick(rep, "Color", 1, v as u64);
        let r = guard(|| Color::from(v));
        let case = J::obj().set("function", "Color::from(u8)").set("input", v);
        match (v, r) {
            (0, Ok(Color::Black)) | (1, Ok(Color::White)) => {}
            (0 | 1, Ok(c)) => bad(rep, "Color", "From<u8>", "Color<-u8", &["decode"], format!("Color::from({}u8) = {:?}", v, c), case),
            (0 | 1, Err(m)) => {
                rep.count("panics_caught", 1);
                bad(rep, "Color", "From<u8>", "Color<-u8", &["panic"], format!("Color::from({}u8) panicked: {}", v, m), case)
            }
            (_, Ok(c)) => bad(
                rep,
                "Color",
                "From<u8>",
                "Color<-u8",
                &["accepts-invalid"],
                format!("Color::from({}u8) = {:?}; bytes other than 0 and 1 are documented to be rejected", v, c),
                case,
            ),
            (_, Err(_)) => {
                rep.count("panics_caught", 1);
                rep.count("documented_rejections_observed", 1);
            }
        }
    }
    for (i, &c) in BW.iter().enumerate() {
        let name = bw_name(c);
        let case = J::obj().set("colour", name);
        tick(rep, "Color", 2, i as u64);
        match guard(|| (c.get_bit_value(), c.get_byte_value(), c.inverse())) {
            Err(m) => {
                rep.count("panics_caught", 1);
                bad(rep, "Color", "get_bit_value/get_byte_value/inverse", "Color::get_bit_value", &["panic"], format!("Color::{} accessors panicked: {}", name, m), case)
            }
            Ok((bit, byte, inv)) => {
                let want_bit = i as u8; // Black = 0, White = 1
                if bit != want_bit {
                    bad(rep, "Color", "get_bit_value", "Color::get_bit_value", &["encoding", name], format!("Color::{}.get_bit_value() = {}, documented {}", name, bit, want_bit), case.clone());
                }
                let want_byte = if i == 1 { 0xffu8 } else { 0x00 };
                if byte != want_byte {
                    bad(rep, "Color", "get_byte_value", "Color::get_byte_value", &["encoding", name], format!("Color::{}.get_byte_value() = {:#04x}, expected {:#04x}", name, byte, want_byte), case.clone());
                }
                if bit <= 1 && byte != bit.wrapping_mul(0xff) {
                    bad(rep, "Color", "get_byte_value", "Color::get_byte_value", &["byte!=8*bit", name], format!("Color::{}: byte value {:#04x} is not eight copies of bit value {}", name, byte, bit), case.clone());
                }
                let want_inv = BW[1 - i];
                if inv != want_inv {
                    bad(rep, "Color", "inverse", "Color::inverse", &["table", name], format!("Color::{}.inverse() = {:?}, expected {:?}", name, inv, want_inv), case.clone());
                }
                if let Ok(back) = guard(|| inv.inverse()) {
                    if back != c {
                        bad(rep, "Color", "inverse", "Color::inverse", &["involution", name], format!("Color::{}.inverse().inverse() = {:?}", name, back), case.clone());
                    }
                }
                // bit -> colour round trip
                match guard(|| Color::from(bit)) {
                    Ok(back) if back == c => {}
                    Ok(back) => bad(rep, "Color", "From<u8>/get_bit_value", "Color<->u8", &["round-trip"], format!("Color::from(Color::{}.get_bit_value()) = {:?}", name, back), case.clone()),
                    Err(m) => bad(rep, "Color", "From<u8>/get_bit_value", "Color<->u8", &["round-trip", "panic"], format!("Color::from(Color::{}.get_bit_value()) panicked: {}", name, m), case.clone()),
                }
                rep.sample(J::obj().set("colour", format!("Color::{}", name)).set("bit", bit).set("byte", byte).set("inverse", bw_name(inv)));
            }
        }
    }
}

fn tricolor_values(rep: &mut Report) {
    for (i, &c) in TRI.iter().enumerate() {
        let name = tri_name(c);
        tick(rep, "TriColor", 3, i as u64);
        let case = J::obj().set("colour", name);
        match guard(|| (c.get_bit_value(), c.get_byte_value())) {
            Err(m) => {
                rep.count("panics_caught", 1);
                bad(rep, "TriColor", "get_bit_value/get_byte_value", "TriColor::get_bit_value", &["panic"], format!("TriColor::{} accessors panicked: {}", name, m), case)
            }
            Ok((bit, byte)) => {
                // documented: white plane value; Black -> 0, White -> 1. Chromatic: only consistency is demanded.
                if i < 2 && bit != i as u8 {
                    bad(rep, "TriColor", "get_bit_value", "TriColor::get_bit_value", &["encoding", name], format!("TriColor::{}.get_bit_value() = {}, expected {}", name, bit, i), case.clone());
                }
                if i < 2 && byte != [0x00u8, 0xff][i] {
                    bad(rep, "TriColor", "get_byte_value", "TriColor::get_byte_value", &["encoding", name], format!("TriColor::{}.get_byte_value() = {:#04x}", name, byte), case.clone());
                }
                if bit > 1 || byte != bit.wrapping_mul(0xff) {
                    bad(rep, "TriColor", "get_byte_value", "TriColor::get_byte_value", &["byte!=8*bit", name], format!("TriColor::{}: byte value {:#04x} is not eight copies of bit value {}", name, byte, bit), case.clone());
                }
            }
        }
    }
}

fn octcolor_nibbles(rep: &mut Report) {
    for (i, &c) in OCT.iter().enumerate() {
        tick(rep, "OctColor", 4, i as u64);
        let case = J::obj().set("colour", OCT_NAME[i]);
        match guard(|| (c.get_nibble(), c.rgb())) {
            Err(m) => {
                rep.count("panics_caught", 1);
                bad(rep, "OctColor", "get_nibble/rgb", "OctColor::get_nibble", &["panic"], format!("OctColor::{} accessors panicked: {}", OCT_NAME[i], m), case)
            }
            Ok((n, rgb)) => {
                if n != i as u8 {
                    bad(rep, "OctColor", "get_nibble", "OctColor::get_nibble", &["encoding", OCT_NAME[i]], format!("OctColor::{}.get_nibble() = {:#x}, panel code is {:#x}", OCT_NAME[i], n, i), case.clone());
                }
                if rgb != PAL[i] {
                    bad(rep, "OctColor", "rgb", "OctColor::rgb", &["palette", OCT_NAME[i]], format!("OctColor::{}.rgb() = {:?}, palette entry is {:?}", OCT_NAME[i], rgb, PAL[i]), case.clone());
                }
            }
        }
    }
    // from_nibble over all 256 u8 (documented: lower four bits are taken)
    for v in 0..=255u8 {
        tick(rep, "OctColor", 5, v as u64);
        let n = (v & 0x0f) as usize;
        let case = J::obj().set("function", "OctColor::from_nibble").set("input", v);
        let hi = if v > 0x0f { "high-bits-set" } else { "high-bits-clear" };
        match guard(|| OctColor::from_nibble(v)) {
            Err(m) => {
                rep.count("panics_caught", 1);
                bad(rep, "OctColor", "from_nibble", "OctColor::from_nibble", &["panic", hi], format!("OctColor::from_nibble({:#04x}) panicked: {}", v, m), case)
            }
            Ok(Ok(c)) => {
                if n >= 8 {
                    bad(rep, "OctColor", "from_nibble", "OctColor::from_nibble", &["accepts-invalid", hi], format!("OctColor::from_nibble({:#04x}) = Ok({:?}) for an undefined code", v, c), case);
                } else if oct_idx(c) != n {
                    bad(rep, "OctColor", "from_nibble", "OctColor::from_nibble", &["decode", hi, OCT_NAME[n]], format!("OctColor::from_nibble({:#04x}) = {:?}, code {:#x} is {}", v, c, n, OCT_NAME[n]), case);
                }
            }
            Ok(Err(_)) => {
                if n < 8 {
                    bad(rep, "OctColor", "from_nibble", "OctColor::from_nibble", &["rejects-valid", hi, OCT_NAME[n]], format!("OctColor::from_nibble({:#04x}) = Err for defined code {:#x}", v, n), case);
                } else {
                    rep.count("documented_rejections_observed", 1);
                }
            }
        }
    }
    // 64 pairs: packed byte and round trip
    for a in 0..8usize {
        for b in 0..8usize {
            tick(rep, "OctColor", 6, (a * 8 + b) as u64);
            let case = J::obj().set("high", OCT_NAME[a]).set("low", OCT_NAME[b]);
            match guard(|| {
                let byte = OctColor::colors_byte(OCT[a], OCT[b]);
                (byte, OctColor::split_byte(byte))
            }) {
                Err(m) => {
                    rep.count("panics_caught", 1);
                    bad(rep, "OctColor", "colors_byte/split_byte", "OctColor::colors_byte", &["panic"], format!("colors_byte/split_byte({}, {}) panicked: {}", OCT_NAME[a], OCT_NAME[b], m), case)
                }
                Ok((byte, back)) => {
                    let want = ((a as u8) << 4) | b as u8;
                    if byte != want {
                        bad(rep, "OctColor", "colors_byte", "OctColor::colors_byte", &["encoding"], format!("colors_byte({}, {}) = {:#04x}, expected {:#04x} (first pixel in the high nibble)", OCT_NAME[a], OCT_NAME[b], byte, want), case.clone());
                    }
                    match &back {
                        Ok((x, y)) if oct_idx(*x) == a && oct_idx(*y) == b => {}
                        other => bad(rep, "OctColor", "split_byte", "OctColor::split_byte", &["round-trip"], format!("split_byte(colors_byte({}, {})) = {:?}", OCT_NAME[a], OCT_NAME[b], other), case.clone()),
                    }
                    if a == 4 && b == 2 {
                        rep.sample(J::obj().set("colors_byte", vec!["Red", "Green"]).set("byte", byte).set("split_back", format!("{:?}", back)));
                    }
                }
            }
        }
    }
    // split_byte over all 256 bytes
    for v in 0..=255u8 {
        tick(rep, "OctColor", 7, v as u64);
        let (hi, lo) = ((v >> 4) as usize, (v & 15) as usize);
        let case = J::obj().set("function", "OctColor::split_byte").set("input", v);
        match guard(|| OctColor::split_byte(v)) {
            Err(m) => {
                rep.count("panics_caught", 1);
                bad(rep, "OctColor", "split_byte", "OctColor::split_byte", &["panic"], format!("split_byte({:#04x}) panicked: {}", v, m), case)
            }
            Ok(Ok((x, y))) => {
                if hi >= 8 || lo >= 8 {
                    bad(rep, "OctColor", "split_byte", "OctColor::split_byte", &["accepts-invalid"], format!("split_byte({:#04x}) = Ok(({:?},{:?})) although a nibble is undefined", v, x, y), case);
                } else if oct_idx(x) != hi || oct_idx(y) != lo {
                    bad(rep, "OctColor", "split_byte", "OctColor::split_byte", &["decode"], format!("split_byte({:#04x}) = ({:?},{:?}), expected ({},{})", v, x, y, OCT_NAME[hi], OCT_NAME[lo]), case);
                }
            }
            Ok(Err(_)) => {
                if hi < 8 && lo < 8 {
                    bad(rep, "OctColor", "split_byte", "OctColor::split_byte", &["rejects-valid"], format!("split_byte({:#04x}) = Err although both nibbles are defined", v), case);
                } else {
                    rep.count("documented_rejections_observed", 1);
                }
            }
        }
    }
}

fn raw_values(rep: &mut Report) {
    // RawU1 <-> Color: the two directions must agree (which colour 0 means is left open)
    for raw in 0..=1u8 {
        tick(rep, "Color", 8, raw as u64);
        let case = J::obj().set("raw", raw);
        match guard(|| {
            let c = Color::from(RawU1::new(raw));
            let back: RawU1 = c.into();
            (c, back.into_inner())
        }) {
            Err(m) => {
                rep.count("panics_caught", 1);
                bad(rep, "Color", "From<RawU1>/Into<RawU1>", "Color<->RawU1", &["panic"], format!("RawU1({}) -> Color -> RawU1 panicked: {}", raw, m), case)
            }
            Ok((c, back)) => {
                if back != raw {
                    bad(rep, "Color", "From<RawU1>/Into<RawU1>", "Color<->RawU1", &["round-trip"], format!("RawU1({}) -> Color::{} -> RawU1({})", raw, bw_name(c), back), case);
                }
            }
        }
    }
    for (i, &c) in BW.iter().enumerate() {
        tick(rep, "Color", 9, i as u64);
        let case = J::obj().set("colour", bw_name(c));
        match guard(|| {
            let raw: RawU1 = c.into();
            (raw.into_inner(), Color::from(raw))
        }) {
            Err(m) => {
                rep.count("panics_caught", 1);
                bad(rep, "Color", "From<RawU1>/Into<RawU1>", "Color<->RawU1", &["panic"], format!("Color::{} -> RawU1 -> Color panicked: {}", bw_name(c), m), case)
            }
            Ok((raw, back)) => {
                if back != c {
                    bad(rep, "Color", "From<RawU1>/Into<RawU1>", "Color<->RawU1", &["round-trip"], format!("Color::{} -> RawU1({}) -> Color::{}", bw_name(c), raw, bw_name(back)), case);
                }
                rep.sample(J::obj().set("colour", format!("Color::{}", bw_name(c))).set("into_RawU1", raw).set("back_from_RawU1", bw_name(back)));
            }
        }
    }
    // RawU2 -> TriColor is total
    for raw in 0..=3u8 {
        tick(rep, "TriColor", 10, raw as u64);
        match guard(|| TriColor::from(RawU2::new(raw))) {
            Err(m) => {
                rep.count("panics_caught", 1);
                bad(rep, "TriColor", "From<RawU2>", "TriColor<-RawU2", &["panic"], format!("TriColor::from(RawU2({})) panicked: {}", raw, m), J::obj().set("raw", raw))
            }
            Ok(_) => {}
        }
    }
    // RawU4 -> OctColor must not panic; defined codes decode to their colour
    for raw in 0..=15u8 {
        tick(rep, "OctColor", 11, raw as u64);
        let case = J::obj().set("raw", raw);
        match guard(|| OctColor::from(RawU4::new(raw))) {
            Err(m) => {
                rep.count("panics_caught", 1);
                let region = if raw >= 8 { "raw>=8" } else { "raw<8" };
                bad(rep, "OctColor", "From<RawU4>", "OctColor<-RawU4", &["panic", region], format!("OctColor::from(RawU4({})) panicked: {}", raw, m), case)
            }
            Ok(c) => {
                if raw < 8 && oct_idx(c) != raw as usize {
                    bad(rep, "OctColor", "From<RawU4>", "OctColor<-RawU4", &["round-trip"], format!("OctColor::from(RawU4({})) = {:?}, but code {} is {}", raw, c, raw, OCT_NAME[raw as usize]), case);
                }
            }
        }
    }
}

fn bitmasks(rep: &mut Report) {
    let positions: Vec<u32> = (0..24u32).chain([0xffff_fff8, 0xffff_fffd, u32::MAX]).collect();
    for bwrbit in [false, true] {
        let bt = if bwrbit { "bwrbit=true" } else { "bwrbit=false" };
        // Color and TriColor: one bit per pixel per plane, MSB first
        for (i, &c) in BW.iter().enumerate() {
            let name = bw_name(c);
            let mut fill = 0u8;
            for &pos in &positions {
                tick(rep, "Color", 12, (pos as u64) << 8 | (i as u64) << 1 | bwrbit as u64);
                let case = J::obj().set("colour", name).set("bwrbit", bwrbit).set("pos", pos);
                let bit = 0x80u8 >> (pos % 8);
                match guard(|| c.bitmask(bwrbit, pos)) {
                    Err(m) => {
                        rep.count("panics_caught", 1);
                        bad(rep, "Color", "bitmask", "Color::bitmask", &["panic"], format!("Color::{}.bitmask({}, {}) panicked: {}", name, bwrbit, pos, m), case)
                    }
                    Ok((mask, bits)) => {
                        if mask != !bit {
                            bad(rep, "Color", "bitmask", "Color::bitmask", &["mask"], format!("Color::{}.bitmask({}, {}).0 = {:#04x}, pixel {} of a byte is bit {:#04x}", name, bwrbit, pos, mask, pos % 8, bit), case.clone());
                        }
                        if bits >> 8 != 0 || (bits as u8) & mask != 0 {
                            bad(rep, "Color", "bitmask", "Color::bitmask", &["bits-outside-pixel"], format!("Color::{}.bitmask({}, {}) = ({:#04x}, {:#06x}): value bits outside !mask", name, bwrbit, pos, mask, bits), case.clone());
                        }
                        let want = if i == 1 { bit as u16 } else { 0 };
                        if bits != want {
                            bad(rep, "Color", "bitmask", "Color::bitmask", &["encoding", name], format!("Color::{}.bitmask({}, {}).1 = {:#06x}, expected {:#06x}", name, bwrbit, pos, bits, want), case.clone());
                        }
                        if pos < 8 {
                            fill |= bits as u8;
                        }
                    }
                }
            }
            if let Ok(byte) = guard(|| c.get_byte_value()) {
                if fill != byte {
                    bad(rep, "Color", "bitmask/get_byte_value", "Color::bitmask", &["fill-value", name], format!("OR of Color::{}.bitmask(_, 0..8) bits = {:#04x} but get_byte_value() = {:#04x}", name, fill, byte), J::obj().set("colour", name).set("bwrbit", bwrbit));
                }
            }
        }
        for (i, &c) in TRI.iter().enumerate() {
            let name = tri_name(c);
            let (mut fill_bw, mut fill_chr) = (0u8, 0u8);
            for &pos in &positions {
                tick(rep, "TriColor", 13, (pos as u64) << 8 | (i as u64) << 1 | bwrbit as u64);
                let case = J::obj().set("colour", name).set("bwrbit", bwrbit).set("pos", pos);
                let bit = 0x80u8 >> (pos % 8);
                match guard(|| c.bitmask(bwrbit, pos)) {
                    Err(m) => {
                        rep.count("panics_caught", 1);
                        bad(rep, "TriColor", "bitmask", "TriColor::bitmask", &["panic"], format!("TriColor::{}.bitmask({}, {}) panicked: {}", name, bwrbit, pos, m), case)
                    }
                    Ok((mask, bits)) => {
                        let (bw, chr) = (bits as u8, (bits >> 8) as u8);
                        if mask != !bit {
                            bad(rep, "TriColor", "bitmask", "TriColor::bitmask", &["mask"], format!("TriColor::{}.bitmask({}, {}).0 = {:#04x}, pixel {} of a byte is bit {:#04x}", name, bwrbit, pos, mask, pos % 8, bit), case.clone());
                        }
                        if bw & mask != 0 || chr & mask != 0 {
                            bad(rep, "TriColor", "bitmask", "TriColor::bitmask", &["bits-outside-pixel"], format!("TriColor::{}.bitmask({}, {}) = ({:#04x}, {:#06x}): value bits outside !mask", name, bwrbit, pos, mask, bits), case.clone());
                        }
                        // Display doc + test_tricolor_bitmask: low byte = b/w plane, high byte = chromatic plane;
                        // White = bw 1 / chr 0, Black = 0 / 0, Chromatic = chr 1 and bw (0 if bwrbit else 1)
                        let want_bw = match i {
                            0 => 0,
                            1 => bit,
                            _ => {
                                if bwrbit {
                                    0
                                } else {
                                    bit
                                }
                            }
                        };
                        let want_chr = if i == 2 { bit } else { 0 };
                        if bw != want_bw {
                            bad(rep, "TriColor", "bitmask", "TriColor::bitmask", &["encoding", name, bt, "plane=bw"], format!("TriColor::{}.bitmask({}, {}): b/w plane bits {:#04x}, expected {:#04x}", name, bwrbit, pos, bw, want_bw), case.clone());
                        }
                        if chr != want_chr {
                            bad(rep, "TriColor", "bitmask", "TriColor::bitmask", &["encoding", name, bt, "plane=chr"], format!("TriColor::{}.bitmask({}, {}): chromatic plane bits {:#04x}, expected {:#04x}", name, bwrbit, pos, chr, want_chr), case.clone());
                        }
                        if pos < 8 {
                            fill_bw |= bw;
                            fill_chr |= chr;
                        }
                    }
                }
            }
            let case = J::obj().set("colour", name).set("bwrbit", bwrbit);
            if let Ok(byte) = guard(|| c.get_byte_value()) {
                if i < 2 {
                    if fill_bw != byte {
                        bad(rep, "TriColor", "bitmask/get_byte_value", "TriColor::bitmask", &["fill-value", name, "plane=bw"], format!("OR of TriColor::{}.bitmask({}, 0..8) b/w bits = {:#04x} but get_byte_value() = {:#04x}", name, bwrbit, fill_bw, byte), case.clone());
                    }
                } else {
                    // the b/w plane value under a chromatic pixel is a don't-care chosen by bwrbit: only uniformity is demanded
                    if fill_bw != 0x00 && fill_bw != 0xff {
                        bad(rep, "TriColor", "bitmask", "TriColor::bitmask", &["fill-value", name, "plane=bw", "not-uniform"], format!("OR of TriColor::Chromatic.bitmask({}, 0..8) b/w bits = {:#04x}", bwrbit, fill_bw), case.clone());
                    }
                    if fill_bw != byte {
                        rep.count("observed_chromatic_bw_fill_differs_from_get_byte_value", 1);
                        rep.note("observation (not a failure): for bwrbit=false TriColor::Chromatic.bitmask sets the b/w plane bit (fill 0xff) while TriColor::Chromatic.get_byte_value() is 0x00; the statement leaves the b/w value under a chromatic pixel open");
                    }
                }
            }
            let want_chr = if i == 2 { 0xffu8 } else { 0 };
            if fill_chr != want_chr {
                bad(rep, "TriColor", "bitmask", "TriColor::bitmask", &["fill-value", name, "plane=chr"], format!("OR of TriColor::{}.bitmask({}, 0..8) chromatic bits = {:#04x}, expected {:#04x}", name, bwrbit, fill_chr, want_chr), case.clone());
            }
        }
        // OctColor: 4 bits per pixel, even pixel in the high nibble
        for (i, &c) in OCT.iter().enumerate() {
            let name = OCT_NAME[i];
            let mut fill = 0u8;
            for &pos in &positions {
                tick(rep, "OctColor", 14, (pos as u64) << 8 | (i as u64) << 1 | bwrbit as u64);
                let case = J::obj().set("colour", name).set("bwrbit", bwrbit).set("pos", pos);
                let px = if pos % 2 == 0 { 0xF0u8 } else { 0x0F };
                let half = if pos % 2 == 0 { "even-pixel" } else { "odd-pixel" };
                match guard(|| c.bitmask(bwrbit, pos)) {
                    Err(m) => {
                        rep.count("panics_caught", 1);
                        bad(rep, "OctColor", "bitmask", "OctColor::bitmask", &["panic"], format!("OctColor::{}.bitmask({}, {}) panicked: {}", name, bwrbit, pos, m), case)
                    }
                    Ok((mask, bits)) => {
                        if mask != !px {
                            bad(rep, "OctColor", "bitmask", "OctColor::bitmask", &["mask", half], format!("OctColor::{}.bitmask({}, {}).0 = {:#04x}, pixel occupies {:#04x}", name, bwrbit, pos, mask, px), case.clone());
                        }
                        if bits >> 8 != 0 || (bits as u8) & mask != 0 {
                            bad(rep, "OctColor", "bitmask", "OctColor::bitmask", &["bits-outside-pixel", half], format!("OctColor::{}.bitmask({}, {}) = ({:#04x}, {:#06x}): value bits outside !mask", name, bwrbit, pos, mask, bits), case.clone());
                        }
                        let want = if pos % 2 == 0 { (i as u16) << 4 } else { i as u16 };
                        if bits != want {
                            bad(rep, "OctColor", "bitmask", "OctColor::bitmask", &["encoding", half], format!("OctColor::{}.bitmask({}, {}).1 = {:#06x}, expected {:#06x}", name, bwrbit, pos, bits, want), case.clone());
                        }
                        if pos < 2 {
                            fill |= bits as u8;
                        }
                        if i == 6 && pos == 3 && !bwrbit {
                            rep.sample(J::obj().set("bitmask", "OctColor::Orange").set("pos", pos).set("mask", mask).set("bits", bits as u32));
                        }
                    }
                }
            }
            if let Ok(byte) = guard(|| OctColor::colors_byte(c, c)) {
                if fill != byte {
                    bad(rep, "OctColor", "bitmask/colors_byte", "OctColor::bitmask", &["fill-value"], format!("OR of OctColor::{}.bitmask(_, 0..2) bits = {:#04x} but colors_byte(c, c) = {:#04x}", name, fill, byte), J::obj().set("colour", name).set("bwrbit", bwrbit));
                }
            }
        }
    }
}

fn small_conversions(rep: &mut Report) {
    // BinaryColor: On -> Black, Off -> White for all three types
    for (k, on) in [(0u64, true), (1, false)] {
        let b = if on { BinaryColor::On } else { BinaryColor::Off };
        let bn = if on { "On" } else { "Off" };
        let case = J::obj().set("binary", bn);
        tick(rep, "Color", 15, k);
        match guard(|| Color::from(b)) {
            Ok(c) if c == BW[if on { 0 } else { 1 }] => {}
            Ok(c) => bad(rep, "Color", "From<BinaryColor>", "Color<-BinaryColor", &["table"], format!("Color::from(BinaryColor::{}) = {:?}", bn, c), case.clone()),
            Err(m) => bad(rep, "Color", "From<BinaryColor>", "Color<-BinaryColor", &["panic"], format!("Color::from(BinaryColor::{}) panicked: {}", bn, m), case.clone()),
        }
        tick(rep, "TriColor", 15, k);
        match guard(|| TriColor::from(b)) {
            Ok(c) if c == TRI[if on { 0 } else { 1 }] => {}
            Ok(c) => bad(rep, "TriColor", "From<BinaryColor>", "TriColor<-BinaryColor", &["table"], format!("TriColor::from(BinaryColor::{}) = {:?}", bn, c), case.clone()),
            Err(m) => bad(rep, "TriColor", "From<BinaryColor>", "TriColor<-BinaryColor", &["panic"], format!("TriColor::from(BinaryColor::{}) panicked: {}", bn, m), case.clone()),
        }
        tick(rep, "OctColor", 15, k);
        match guard(|| OctColor::from(b)) {
            Ok(c) if oct_idx(c) == if on { 0 } else { 1 } => {}
            Ok(c) => bad(rep, "OctColor", "From<BinaryColor>", "OctColor<-BinaryColor", &["table"], format!("OctColor::from(BinaryColor::{}) = {:?}", bn, c), case.clone()),
            Err(m) => bad(rep, "OctColor", "From<BinaryColor>", "OctColor<-BinaryColor", &["panic"], format!("OctColor::from(BinaryColor::{}) panicked: {}", bn, m), case.clone()),
        }
    }
    // Color -> Rgb*: black and white map to themselves, and back
    for (i, &c) in BW.iter().enumerate() {
        let name = bw_name(c);
        let case = J::obj().set("colour", name);
        tick(rep, "Color", 16, i as u64);
        match guard(|| {
            let a: Rgb888 = c.into();
            let b: Rgb565 = c.into();
            let d: Rgb555 = c.into();
            ((a.r(), a.g(), a.b()), (b.r(), b.g(), b.b()), (d.r(), d.g(), d.b()), Color::from(a), Color::from(b), Color::from(d))
        }) {
            Err(m) => {
                rep.count("panics_caught", 1);
                bad(rep, "Color", "Into<Rgb888/Rgb565/Rgb555>", "Rgb888<-Color", &["panic"], format!("Color::{} -> Rgb* panicked: {}", name, m), case)
            }
            Ok((a, b, d, ba, bb, bd)) => {
                let want = |m: (u8, u8, u8)| if i == 1 { m } else { (0, 0, 0) };
                if a != want((255, 255, 255)) {
                    bad(rep, "Color", "Into<Rgb888>", "Rgb888<-Color", &["fixed-point", name], format!("Rgb888::from(Color::{}) = {:?}", name, a), case.clone());
                }
                if b != want((31, 63, 31)) {
                    bad(rep, "Color", "Into<Rgb565>", "Rgb565<-Color", &["fixed-point", name], format!("Rgb565::from(Color::{}) = {:?}", name, b), case.clone());
                }
                if d != want((31, 31, 31)) {
                    bad(rep, "Color", "Into<Rgb555>", "Rgb555<-Color", &["fixed-point", name], format!("Rgb555::from(Color::{}) = {:?}", name, d), case.clone());
                }
                for (back, ty, cl) in [(ba, "Rgb888", "Color<->Rgb888"), (bb, "Rgb565", "Color<->Rgb565"), (bd, "Rgb555", "Color<->Rgb555")] {
                    if back != c {
                        bad(rep, "Color", "From<Rgb>/Into<Rgb>", cl, &["round-trip", name], format!("Color::{} -> {} -> Color::{}", name, ty, bw_name(back)), case.clone());
                    }
                }
            }
        }
    }
    // TriColor -> Rgb888: black/white fixed points, chromatic anything but total
    for (i, &c) in TRI.iter().enumerate() {
        let name = tri_name(c);
        let case = J::obj().set("colour", name);
        tick(rep, "TriColor", 17, i as u64);
        match guard(|| {
            let a: Rgb888 = c.into();
            ((a.r(), a.g(), a.b()), TriColor::from(a))
        }) {
            Err(m) => {
                rep.count("panics_caught", 1);
                bad(rep, "TriColor", "Into<Rgb888>", "Rgb888<-TriColor", &["panic"], format!("TriColor::{} -> Rgb888 panicked: {}", name, m), case)
            }
            Ok((a, back)) => {
                if i < 2 {
                    let want = if i == 1 { (255, 255, 255) } else { (0, 0, 0) };
                    if a != want {
                        bad(rep, "TriColor", "Into<Rgb888>", "Rgb888<-TriColor", &["fixed-point", name], format!("Rgb888::from(TriColor::{}) = {:?}", name, a), case.clone());
                    }
                    if back != c {
                        bad(rep, "TriColor", "From<Rgb888>/Into<Rgb888>", "TriColor<->Rgb888", &["round-trip", name], format!("TriColor::{} -> Rgb888 -> TriColor::{}", name, tri_name(back)), case.clone());
                    }
                }
            }
        }
    }
    // OctColor -> Rgb888 -> OctColor
    for (i, &c) in OCT.iter().enumerate() {
        let name = OCT_NAME[i];
        let case = J::obj().set("colour", name);
        tick(rep, "OctColor", 18, i as u64);
        match guard(|| {
            let a: Rgb888 = c.into();
            ((a.r(), a.g(), a.b()), OctColor::from(a))
        }) {
            Err(m) => {
                rep.count("panics_caught", 1);
                bad(rep, "OctColor", "Into<Rgb888>", "Rgb888<-OctColor", &["panic"], format!("OctColor::{} -> Rgb888 panicked: {}", name, m), case)
            }
            Ok((a, back)) => {
                if a != PAL[i] {
                    bad(rep, "OctColor", "Into<Rgb888>", "Rgb888<-OctColor", &["palette", name], format!("Rgb888::from(OctColor::{}) = {:?}, palette entry is {:?}", name, a, PAL[i]), case.clone());
                }
                if oct_idx(back) != i {
                    bad(rep, "OctColor", "From<Rgb888>/Into<Rgb888>", "OctColor<->Rgb888", &["round-trip", name], format!("OctColor::{} -> Rgb888{:?} -> OctColor::{:?}", name, a, back), case.clone());
                }
            }
        }
    }
}

// ------------------------------------------------------------------------------------------------
// part B: RGB domains
// ------------------------------------------------------------------------------------------------

/// -1 = must be Black, +1 = must be White, 0 = either is acceptable.
/// Three brightness definitions on channels normalised by their maxima, compared with 1/2 exactly:
/// channel mean, Rec.601 luma, raw sum / maximal raw sum. The answer is forced only where all
/// three agree (exact integer arithmetic, so a threshold that is off by one count is visible).
fn bw_verdict(r: u64, g: u64, b: u64, rm: u64, gm: u64, bm: u64) -> i32 {
    let den = rm * gm * bm;
    let (rn, gn, bn) = (r * gm * bm, g * rm * bm, b * rm * gm);
    let mean = (2 * (rn + gn + bn)).cmp(&(3 * den));
    let luma = (2 * (299 * rn + 587 * gn + 114 * bn)).cmp(&(1000 * den));
    let raw = (2 * (r + g + b)).cmp(&(rm + gm + bm));
    use std::cmp::Ordering::*;
    if mean == Greater && luma == Greater && raw == Greater {
        1
    } else if mean == Less && luma == Less && raw == Less {
        -1
    } else {
        0
    }
}

fn check_bw(rep: &mut Report, ty: &'static str, class: &'static str, entry: &'static str, r: u8, g: u8, b: u8, max: (u8, u8, u8), got: Result<Color, String>) {
    let case = || J::obj().set("from", ty).set("r", r).set("g", g).set("b", b);
    let got = match got {
        Ok(c) => c,
        Err(m) => {
            rep.count("panics_caught", 1);
            bad(rep, "Color", entry, class, &["panic"], format!("Color::from({}({},{},{})) panicked: {}", ty, r, g, b, m), case());
            return;
        }
    };
    if (r, g, b) == (0, 0, 0) || (r, g, b) == max {
        let want = if (r, g, b) == max { Color::White } else { Color::Black };
        if got != want {
            bad(rep, "Color", entry, class, &["fixed-point", bw_name(want)], format!("Color::from({}({},{},{})) = {:?}", ty, r, g, b, got), case());
        }
        return;
    }
    let v = bw_verdict(r as u64, g as u64, b as u64, max.0 as u64, max.1 as u64, max.2 as u64);
    if v > 0 && got != Color::White {
        bad(
            rep,
            "Color",
            entry,
            class,
            &["not-nearest", "expected-white"],
            format!("Color::from({}({},{},{})) = Black although channel mean, Rec.601 luma and raw sum are all above half scale (maxima {:?})", ty, r, g, b, max),
            case(),
        );
    } else if v < 0 && got != Color::Black {
        bad(
            rep,
            "Color",
            entry,
            class,
            &["not-nearest", "expected-black"],
            format!("Color::from({}({},{},{})) = White although channel mean, Rec.601 luma and raw sum are all below half scale (maxima {:?})", ty, r, g, b, max),
            case(),
        );
    }
}

fn rgb888_slice(rep: &mut Report, r: u8, gs: &[u8], bs: &[u8], dom: u64) {
    let mut n = 0u64;
    let mut decided = 0u64;
    for &g in gs {
        for &b in bs {
            n += 1;
            let p = Rgb888::new(r, g, b);
            // OctColor
            match guard(|| OctColor::from(p)) {
                Err(m) => {
                    rep.count("panics_caught", 1);
                    bad(rep, "OctColor", "From<Rgb888>", "OctColor<-Rgb888", &["panic"], format!("OctColor::from(Rgb888({},{},{})) panicked: {}", r, g, b, m), J::obj().set("r", r).set("g", g).set("b", b));
                }
                Ok(c) => {
                    let gi = oct_idx(c);
                    let dist = |q: (u8, u8, u8)| {
                        let d = |a: u8, b: u8| (a as i64 - b as i64) * (a as i64 - b as i64);
                        d(q.0, r) + d(q.1, g) + d(q.2, b)
                    };
                    if let Some(e) = PAL.iter().position(|&q| q == (r, g, b)) {
                        if gi != e {
                            bad(
                                rep,
                                "OctColor",
                                "From<Rgb888>",
                                "OctColor<-Rgb888",
                                &["exact-palette-hit", OCT_NAME[e]],
                                format!("OctColor::from(Rgb888({},{},{})) = {} although the value is exactly {}'s palette entry", r, g, b, OCT_NAME[gi], OCT_NAME[e]),
                                J::obj().set("r", r).set("g", g).set("b", b),
                            );
                        }
                    } else {
                        let dmin = PAL.iter().map(|&q| dist(q)).min().unwrap();
                        if dist(PAL[gi]) != dmin {
                            let best = PAL.iter().position(|&q| dist(q) == dmin).unwrap();
                            bad(
                                rep,
                                "OctColor",
                                "From<Rgb888>",
                                "OctColor<-Rgb888",
                                &["not-nearest", OCT_NAME[gi]],
                                format!(
                                    "OctColor::from(Rgb888({},{},{})) = {} at squared distance {}, but {} is at {}",
                                    r,
                                    g,
                                    b,
                                    OCT_NAME[gi],
                                    dist(PAL[gi]),
                                    OCT_NAME[best],
                                    dmin
                                ),
                                J::obj().set("r", r).set("g", g).set("b", b),
                            );
                        }
                    }
                }
            }
            // Color
            if bw_verdict(r as u64, g as u64, b as u64, 255, 255, 255) != 0 {
                decided += 1;
            }
            check_bw(rep, "Rgb888", "Color<-Rgb888", "From<Rgb888>", r, g, b, (255, 255, 255), guard(|| Color::from(p)));
            // TriColor: only the black / white fixed points are constrained
            match guard(|| TriColor::from(p)) {
                Err(m) => {
                    rep.count("panics_caught", 1);
                    bad(rep, "TriColor", "From<Rgb888>", "TriColor<-Rgb888", &["panic"], format!("TriColor::from(Rgb888({},{},{})) panicked: {}", r, g, b, m), J::obj().set("r", r).set("g", g).set("b", b));
                }
                Ok(c) => {
                    let want = match (r, g, b) {
                        (0, 0, 0) => Some(TriColor::Black),
                        (255, 255, 255) => Some(TriColor::White),
                        _ => None,
                    };
                    if let Some(w) = want {
                        if c != w {
                            bad(rep, "TriColor", "From<Rgb888>", "TriColor<-Rgb888", &["fixed-point", tri_name(w)], format!("TriColor::from(Rgb888({},{},{})) = {:?}", r, g, b, c), J::obj().set("r", r).set("g", g).set("b", b));
                        }
                    }
                }
            }
        }
    }
    for grp in ["OctColor", "Color", "TriColor"] {
        *rep.per_panel.entry(grp.to_string()).or_insert(0) += n;
    }
    rep.evaluations += 3 * n;
    rep.count("conversions_checked", 3 * n);
    rep.count("rgb888_values_checked", n);
    rep.count("rgb888_to_color_values_with_forced_answer", decided);
    rep.count("nontrivial_items", 3 * n);
    rep.nontrivial(h64(&[20, dom, r as u64]));
}

fn rgb565_slice(rep: &mut Report, r: u8) {
    let mut n = 0u64;
    let mut decided = 0u64;
    for g in 0..64u8 {
        for b in 0..32u8 {
            n += 1;
            let p = Rgb565::new(r, g, b);
            if bw_verdict(r as u64, g as u64, b as u64, 31, 63, 31) != 0 {
                decided += 1;
            }
            check_bw(rep, "Rgb565", "Color<-Rgb565", "From<Rgb565>", r, g, b, (31, 63, 31), guard(|| Color::from(p)));
        }
    }
    *rep.per_panel.entry("Color".to_string()).or_insert(0) += n;
    rep.evaluations += n;
    rep.count("conversions_checked", n);
    rep.count("rgb565_values_checked", n);
    rep.count("rgb565_to_color_values_with_forced_answer", decided);
    rep.count("nontrivial_items", n);
    rep.nontrivial(h64(&[21, r as u64]));
}

fn rgb555_slice(rep: &mut Report, r: u8) {
    let mut n = 0u64;
    let mut decided = 0u64;
    for g in 0..32u8 {
        for b in 0..32u8 {
            n += 1;
            let p = Rgb555::new(r, g, b);
            if bw_verdict(r as u64, g as u64, b as u64, 31, 31, 31) != 0 {
                decided += 1;
            }
            check_bw(rep, "Rgb555", "Color<-Rgb555", "From<Rgb555>", r, g, b, (31, 31, 31), guard(|| Color::from(p)));
        }
    }
    *rep.per_panel.entry("Color".to_string()).or_insert(0) += n;
    rep.evaluations += n;
    rep.count("conversions_checked", n);
    rep.count("rgb555_values_checked", n);
    rep.count("rgb555_to_color_values_with_forced_answer", decided);
    rep.count("nontrivial_items", n);
    rep.nontrivial(h64(&[22, r as u64]));
}

enum Case {
    Tables,
    /// (r, domain): domain 0 = all values, 1 = 64-level lattice, 2 = boundary set
    R888(u8, u8),
    R565(u8),
    R555(u8),
}

pub fn run(ctx: &Ctx) -> Report {
    let miri = ctx.mode == "miri";
    let all: Vec<u8> = (0..=255u8).collect();
    let lattice: Vec<u8> = (0..64u32).map(|v| ((v * 255 + 31) / 63) as u8).collect();
    let boundary: Vec<u8> = vec![0, 1, 0x7f, 0x80, 0x81, 0xfe, 0xff];
    let mut cases = vec![Case::Tables];
    if !miri {
        // all 2^24 values in both tiers (a fraction of a second natively)
        for r in 0..=255u8 {
            cases.push(Case::R888(r, 0));
        }
    } else {
        if !miri {
            for &r in &lattice {
                cases.push(Case::R888(r, 1));
            }
        }
        for &r in &boundary {
            cases.push(Case::R888(r, 2));
        }
    }
    let step = if miri { 8 } else { 1 };
    for r in (0..32u8).step_by(step) {
        cases.push(Case::R565(r));
        cases.push(Case::R555(r));
    }
    let cases = crate::report::shard(cases, ctx.shard);
    let threads = if miri { 1 } else { ctx.threads };
    let mut rep = par_run(&cases, threads, |_i, c, rep| match c {
        Case::Tables => {
            color_u8(rep);
            tricolor_values(rep);
            octcolor_nibbles(rep);
            raw_values(rep);
            bitmasks(rep);
            small_conversions(rep);
        }
        Case::R888(r, 0) => rgb888_slice(rep, *r, &all, &all, 0),
        Case::R888(r, 1) => rgb888_slice(rep, *r, &lattice, &lattice, 1),
        Case::R888(r, _) => rgb888_slice(rep, *r, &boundary, &boundary, 2),
        Case::R565(r) => rgb565_slice(rep, *r),
        Case::R555(r) => rgb555_slice(rep, *r),
    });
    // a few written-out RGB cases
    for (r, g, b) in [(255u8, 128u8, 0u8), (200, 200, 10), (127, 127, 127), (129, 129, 129)] {
        let p = Rgb888::new(r, g, b);
        if let (Ok(o), Ok(c), Ok(t)) = (guard(|| OctColor::from(p)), guard(|| Color::from(p)), guard(|| TriColor::from(p))) {
            rep.sample(J::obj().set("rgb888", vec![r, g, b]).set("OctColor", OCT_NAME[oct_idx(o)]).set("Color", bw_name(c)).set("TriColor", tri_name(t)).set("model_bw_verdict", bw_verdict(r as u64, g as u64, b as u64, 255, 255, 255)));
        }
    }
    for (r, g, b) in [(31u8, 63u8, 30u8), (16, 32, 16), (3, 5, 2)] {
        if let (Ok(a), Ok(c)) = (guard(|| Color::from(Rgb565::new(r, g, b))), guard(|| Color::from(Rgb555::new(r, g.min(31), b)))) {
            rep.sample(J::obj().set("rgb565", vec![r, g, b]).set("Color_from_Rgb565", bw_name(a)).set("Color_from_Rgb555(g clipped to 31)", bw_name(c)).set("model_bw_verdict_565", bw_verdict(r as u64, g as u64, b as u64, 31, 63, 31)));
        }
    }
    rep.note("small tables: every input is hashed into distinct_nontrivial; RGB domains: one hash per (conversion family, domain, red value) and the exact number of compared conversions in counters.nontrivial_items");
    rep.note("Color<-RGB oracle: White required when channel mean, Rec.601 luma and raw-sum/max-sum (channels normalised by their maxima) are all > 1/2, Black when all < 1/2, either otherwise; black and white fixed points exact");
    rep.note("OctColor<-Rgb888 oracle: exact palette entry -> that colour; otherwise any palette colour at minimal squared distance (ties accepted)");
    rep.note("there is no From<Rgb565>/From<Rgb555> for TriColor or OctColor and no From<TriColor> for RawU2 / From<OctColor> for RawU4 in the pinned tree; only existing impls are exercised");
    if !miri {
        rep.note("all 2^24 Rgb888 values, all 65536 Rgb565 and all 32768 Rgb555 values (both tiers)");
    } else {
        rep.note("miri: Rgb888 on {0,1,0x7f,0x80,0x81,0xfe,0xff}^3; every 8th red level of Rgb565 and Rgb555");
    }
    rep
}
