//! C15 — 12.48in tiling: each window byte reaches exactly the sub-display that owns it.
//! Independent geometric oracle vs the CS/DC-demultiplexed wire log.
use crate::hal::{Ev, Pin};
use crate::json::J;
use crate::model::CmdRec;
use crate::p12::*;
use crate::panels::Outcome;
use crate::prng::{hash_str, mix64, Rng};
use crate::report::{par_run, Failure, Report};
use crate::Ctx;

pub type R4 = (u32, u32, u32, u32);

/// independent rectangle intersection (does not use the library's Rect)
fn isect(a: R4, b: R4) -> Option<R4> {
    let x0 = a.0.max(b.0);
    let y0 = a.1.max(b.1);
    let x1 = (a.0 + a.2).min(b.0 + b.2);
    let y1 = (a.1 + a.3).min(b.1 + b.3);
    if x1 > x0 && y1 > y0 {
        Some((x0, y0, x1 - x0, y1 - y0))
    } else {
        None
    }
}

fn fnv_bytes<'a>(it: impl Iterator<Item = &'a u8>) -> (u64, u32) {
    let mut h = 0xcbf29ce484222325u64;
    let mut n = 0u32;
    for b in it {
        h = (h ^ *b as u64).wrapping_mul(0x100000001b3);
        n += 1;
    }
    (h, n)
}

/// expected (hash, len) of the data each chip receives for window `w` and pixel rows `p`
pub fn expected_data(w: R4, p: &[u8]) -> [Option<(u64, u32)>; 4] {
    let rb = (w.2 / 8) as usize;
    let k = (p.len() / rb).max(1);
    let mut out = [None; 4];
    for c in 0..4 {
        if let Some(i) = isect(w, CHIP_RECTS[c]) {
            let off = ((i.0 - w.0) / 8) as usize;
            let len = (i.2 / 8) as usize;
            let mut v: Vec<u8> = Vec::with_capacity(len * i.3 as usize);
            for r in i.1..i.1 + i.3 {
                let row = ((r - w.1) as usize) % k;
                v.extend_from_slice(&p[row * rb + off..row * rb + off + len]);
            }
            out[c] = Some(fnv_bytes(v.iter()));
        }
    }
    out
}

/// expected 9-byte partial-window block of chip `c`, None = empty intersection
fn expected_window(w: R4, c: usize) -> Option<[u8; 9]> {
    let i = isect(w, CHIP_RECTS[c])?;
    let r = CHIP_RECTS[c];
    let lx = i.0 - r.0;
    let ly = i.1 - r.1;
    let sx = if CHIP_MIRRORED[c] { r.2 - lx - i.2 } else { lx };
    let ex = sx + i.2 - 1;
    let ey = ly + i.3 - 1;
    Some([(sx >> 8) as u8, sx as u8, (ex >> 8) as u8, ex as u8, (ly >> 8) as u8, ly as u8, (ey >> 8) as u8, ey as u8, 0x01])
}

const SENTINEL: [u8; 9] = [0x00, 0x00, 0xFF, 0xFF, 0x00, 0x00, 0xFF, 0xFF, 0x01];

fn cmds_of_op(rig: &Rig12, chip: usize) -> Vec<CmdRec> {
    let b = rig.board.borrow();
    let ch = &b.chips[chip];
    ch.cmds.iter().filter(|c| c.opidx == ch.opidx).cloned().collect()
}

/// pin discipline over one op's log: selected chips' D/C agree; image data goes to exactly one chip;
/// everything released at the end
pub fn check_pins(rig: &Rig12, out: &mut Vec<(String, Vec<String>, String)>) {
    let b = rig.board.borrow();
    let segs = crate::props::common::op_segments(&b.log);
    let (_, s, e) = *segs.last().unwrap();
    let cs = [Pin::CsM1, Pin::CsS1, Pin::CsM2, Pin::CsS2];
    let dcs = [Pin::DcM1S1, Pin::DcM1S1, Pin::DcM2S2, Pin::DcM2S2];
    // track per chip the command in flight to know when bytes are image data
    let mut cur: [u8; 4] = [0; 4];
    for ev in &b.log[s..e] {
        if let Ev::Spi { levels, off, len, .. } = ev {
            let sel: Vec<usize> = (0..4).filter(|i| levels & cs[*i].bit() == 0).collect();
            if sel.is_empty() {
                out.push(("cs-not-exclusive".into(), vec!["no-chip-selected".into()], format!("{} bytes on the bus with no chip selected", len)));
                continue;
            }
            let dlev: Vec<bool> = sel.iter().map(|i| levels & dcs[*i].bit() != 0).collect();
            if dlev.iter().any(|d| *d != dlev[0]) {
                out.push(("cs-dc-inconsistent".into(), vec![], "selected chips see different D/C levels".into()));
            }
            if !dlev[0] {
                if *len != 1 {
                    out.push(("cs-dc-inconsistent".into(), vec!["cmd-len".into()], format!("{} bytes sent with D/C low", len)));
                }
                for i in &sel {
                    cur[*i] = b.bytes[*off as usize];
                }
            } else {
                let image = sel.iter().any(|i| cur[*i] == 0x10 || cur[*i] == 0x13);
                if image && sel.len() != 1 {
                    out.push(("cs-not-exclusive".into(), vec![], format!("image bytes on the bus with chips {:?} selected", sel.iter().map(|i| CHIP_NAMES[*i]).collect::<Vec<_>>())));
                }
            }
        }
    }
    let lv = b.levels;
    let cs_high = cs.iter().all(|p| lv & p.bit() != 0);
    let dc_low = lv & Pin::DcM1S1.bit() == 0 && lv & Pin::DcM2S2.bit() == 0;
    if !cs_high || !dc_low {
        out.push(("pins-not-released".into(), vec![], format!("at return: all CS high = {}, both D/C low = {}", cs_high, dc_low)));
    }
    out.dedup();
}

#[derive(Clone)]
pub struct Case {
    pub win: Option<R4>, // None = full frame write
    pub rows: u32, // number of pixel rows supplied
    pub plane2: bool,
    pub salt: u64,
    /// public call made on the same driver immediately before the write under test (no reset in between)
    pub pred: Option<Op12>,
}

pub fn pixels(rb: usize, rows: usize, salt: u64) -> Vec<u8> {
    (0..rb * rows).map(|i| (mix64(((i as u64) << 16) ^ salt) >> 13) as u8).collect()
}

type Fails = Vec<(String, Vec<String>, String)>;

fn op_of(c: &Case, p: &[u8]) -> Op12 {
    match (c.win, c.plane2) {
        (None, false) => Op12::Write1(p.to_vec()),
        (None, true) => Op12::Write2(p.to_vec()),
        (Some(w), false) => Op12::Write1Partial(w, p.to_vec()),
        (Some(w), true) => Op12::Write2Partial(w, p.to_vec()),
    }
}

/// run the write of `c` on a ready driver (after `pred` if given) and judge everything the last call did
fn eval_write(c: &Case, pred: Option<&Op12>, rep: &mut Report) -> Result<Fails, String> {
    let w = c.win.unwrap_or((0, 0, W, H));
    let rb = (w.2 / 8) as usize;
    let p = pixels(rb, c.rows as usize, c.salt);
    let op = op_of(c, &p);
    let mut rig = Rig12::ready();
    if let Some(pr) = pred {
        let o = rig.apply(pr);
        if !o.is_ok() {
            return Err(format!("predecessor {} returned {}", pr.name(), o.short()));
        }
    }
    let o = rig.apply(&op);
    if !o.is_ok() {
        return Err(format!("call returned {}", o.short()));
    }
    let dtm = if c.plane2 { 0x13 } else { 0x10 };
    let exp = expected_data(w, &p);
    let mut fails: Fails = Vec::new();
    for chip in 0..4 {
        let cmds = cmds_of_op(&rig, chip);
        let data: Vec<&CmdRec> = cmds.iter().filter(|c| c.op == 0x10 || c.op == 0x13).collect();
        rep.count("chip_streams_checked", 1);
        match exp[chip] {
            None => {
                if !data.is_empty() {
                    fails.push(("wrong-chip".into(), vec![format!("chip={}", CHIP_NAMES[chip])], format!("chip {} owns no byte of the window but received command {:02X} with {} bytes", CHIP_NAMES[chip], data[0].op, data[0].nparams)));
                }
            }
            Some((h, n)) => {
                rep.count("image_bytes_expected", n as u64);
                if data.len() != 1 || data[0].op != dtm {
                    fails.push(("wrong-chip".into(), vec![format!("chip={}", CHIP_NAMES[chip])], format!("chip {} should receive one {:02X} transmission, got {:?}", CHIP_NAMES[chip], dtm, data.iter().map(|d| (d.op, d.nparams)).collect::<Vec<_>>())));
                } else if data[0].nparams != n {
                    fails.push(("row-slice".into(), vec![format!("chip={}", CHIP_NAMES[chip]), "length".into()], format!("chip {} received {} bytes, owns {}", CHIP_NAMES[chip], data[0].nparams, n)));
                } else if data[0].hash != h {
                    fails.push(("row-order".into(), vec![format!("chip={}", CHIP_NAMES[chip])], format!("chip {} received the right number of bytes but different content / order", CHIP_NAMES[chip])));
                } else if c.win.is_none() {
                    // "at the matching local position": a full-frame write carries no window of its own, so where the
                    // bytes land is decided by the state the previous call left the sub-display in (partial mode and
                    // its window registers); judged on the controller model's memory
                    let b = rig.board.borrow();
                    let ch = &b.chips[chip];
                    let pl = &ch.planes[if c.plane2 { 1 } else { 0 }];
                    let (mh, ml) = fnv_bytes(pl.data.iter());
                    if ml == n {
                        rep.count("full_frame_memory_images_compared", 1);
                        if mh != h {
                            fails.push(("local-position".into(), vec![format!("chip={}", CHIP_NAMES[chip])], format!("chip {} received its bytes in order but its image memory does not hold them at the matching local positions (partial mode {} when the data arrived)", CHIP_NAMES[chip], ch.partial_mode)));
                        }
                    } else {
                        rep.count("full_frame_memory_compare_skipped", 1);
                    }
                }
            }
        }
        if c.win.is_some() {
            // partial: PartialIn, window block, data, PartialOut
            let has_in = cmds.iter().any(|c| c.op == 0x91);
            let has_out = cmds.last().map(|c| c.op == 0x92).unwrap_or(false);
            if !has_in || !has_out {
                fails.push(("window-not-intersection".into(), vec![format!("chip={}", CHIP_NAMES[chip]), "bracket".into()], format!("chip {}: PartialIn seen {}, PartialOut last {}", CHIP_NAMES[chip], has_in, has_out)));
            }
            let wins: Vec<&CmdRec> = cmds.iter().filter(|c| c.op == 0x90).collect();
            if wins.len() != 1 || wins[0].nparams != 9 {
                fails.push(("window-not-intersection".into(), vec![format!("chip={}", CHIP_NAMES[chip]), "block".into()], format!("chip {}: {} window commands / {} parameter bytes", CHIP_NAMES[chip], wins.len(), wins.first().map(|w| w.nparams).unwrap_or(0))));
            } else {
                let got = &wins[0].params;
                match expected_window(w, chip) {
                    Some(want) => {
                        if got[..] != want[..] {
                            // classify: mirrored?
                            let class = if CHIP_MIRRORED[chip] && got[4..] == want[4..] { "mirror" } else { "window-not-intersection" };
                            fails.push((class.into(), vec![format!("chip={}", CHIP_NAMES[chip])], format!("chip {} window block [{}], expected [{}]", CHIP_NAMES[chip], crate::props::common::hex(got), crate::props::common::hex(&want))));
                        }
                    }
                    None => {
                        let r = CHIP_RECTS[chip];
                        let sx = ((got[0] as u32) << 8) | got[1] as u32;
                        let sy = ((got[4] as u32) << 8) | got[5] as u32;
                        let off_screen = sx >= r.2 || sy >= r.3;
                        if got[..] != SENTINEL[..] && !off_screen {
                            fails.push(("empty-window".into(), vec![format!("chip={}", CHIP_NAMES[chip])], format!("chip {} owns nothing of the window but is programmed with on-screen window [{}]", CHIP_NAMES[chip], crate::props::common::hex(got))));
                        }
                    }
                }
            }
        }
    }
    check_pins(&rig, &mut fails);
    rep.count("spi_transfers", rig.board.borrow().spi_writes);
    Ok(fails)
}

pub fn check_write(c: &Case, rep: &mut Report) {
    rep.eval("epd12in48b_v2");
    let w = c.win.unwrap_or((0, 0, W, H));
    let rb = (w.2 / 8) as usize;
    let op = op_of(c, &pixels(rb, c.rows as usize, c.salt));
    let mut case = J::obj().set("panel", "epd12in48b_v2").set("op", op.to_json()).set("pixel_rows", c.rows);
    if let Some(p) = &c.pred {
        case = case.set("after", p.to_json());
    }
    let entry = op.name().to_string();
    let ctx_txt = c.pred.as_ref().map(|p| format!(" (directly after {})", p.name())).unwrap_or_default();
    let mk = |class: &str, tags: Vec<String>, detail: String| Failure { panel: "epd12in48b_v2".into(), entry: entry.clone(), class: class.into(), tags, detail: format!("window {:?}, {} pixel rows{}: {}", w, c.rows, ctx_txt, detail), case: case.clone() };
    rep.nontrivial(hash_str(&format!("{:?}|{}|{}|{:?}", c.win, c.rows, c.plane2, c.pred.as_ref().map(|p| p.to_json().to_string()))));
    let fails = match eval_write(c, c.pred.as_ref(), rep) {
        Ok(f) => f,
        Err(e) => {
            rep.fail(mk("panic", c.pred.as_ref().map(|p| vec![format!("after:{}", p.name())]).unwrap_or_default(), e));
            return;
        }
    };
    if fails.is_empty() && rep.samples.len() < 10 {
        rep.sample(case.clone());
    }
    if fails.is_empty() {
        return;
    }
    match &c.pred {
        None => {
            for (class, tags, detail) in fails {
                rep.fail(mk(&class, tags, detail));
            }
        }
        Some(p) => {
            // report only what the same write on a fresh driver does not already show
            rep.count("context_cases_failing", 1);
            let fresh = eval_write(c, None, &mut Report::new()).unwrap_or_default();
            for (class, mut tags, detail) in fails {
                if fresh.iter().any(|(fc, ft, _)| *fc == class && *ft == tags) {
                    continue;
                }
                tags.push(format!("after:{}", p.name()));
                rep.fail(mk(&class, tags, detail));
            }
        }
    }
}

/// UC8179 packing tables (datasheet): CDI first byte = BDV<<4 | DDX, second byte 0x07; PSR = REG<<5 | 0x0F (lower) / 0x03 (upper)
fn expected_mode(cfg: u32) -> (u8, u8, u8, u8) {
    let inv_kw = cfg & 1 != 0;
    let inv_r = cfg & 2 != 0;
    let border = (cfg >> 2) & 3; // 0 BD, 1 K, 2 W, 3 R
    let ext = cfg & 16 != 0;
    // DDX[0] = 1: 0 -> black, 1 -> white (not inverted); DDX[1] = 1: red data inverted
    let ddx = ((inv_r as u8) << 1) | (!inv_kw as u8);
    // KWR mode border selection: DDX[0]=0: 00 LUTBD 01 LUTR 10 LUTW 11 LUTK; DDX[0]=1: 00 LUTK 01 LUTW 10 LUTR 11 LUTBD
    let bdv = if ddx & 1 == 0 {
        match border {
            0 => 0,
            3 => 1,
            2 => 2,
            _ => 3,
        }
    } else {
        match border {
            1 => 0,
            2 => 1,
            3 => 2,
            _ => 3,
        }
    };
    let reg = (ext as u8) << 5;
    ((bdv << 4) | ddx, 0x07, reg | 0x0F, reg | 0x03)
}

fn check_mode(cfg: u32, via_init: bool, rep: &mut Report) {
    rep.eval("epd12in48b_v2");
    let mut rig = Rig12::new(|_| {});
    let _ = rig.apply(&Op12::Reset);
    let op = if via_init { Op12::Init(cfg) } else { Op12::SetMode(cfg) };
    if !via_init {
        let _ = rig.apply(&Op12::Init(0));
    }
    let o = rig.apply(&op);
    let case = J::obj().set("panel", "epd12in48b_v2").set("op", op.to_json());
    let entry = op.name().to_string();
    rep.nontrivial(hash_str(&format!("mode|{}|{}", cfg, via_init)));
    if !o.is_ok() {
        rep.fail(Failure { panel: "epd12in48b_v2".into(), entry, class: "panic".into(), tags: vec![], detail: o.short(), case });
        return;
    }
    let (cdi0, cdi1, psr_lo, psr_up) = expected_mode(cfg);
    let mut fails: Vec<(String, Vec<String>, String)> = Vec::new();
    for chip in 0..4 {
        let cmds = cmds_of_op(&rig, chip);
        let psr = cmds.iter().rev().find(|c| c.op == 0x00);
        let cdi = cmds.iter().rev().find(|c| c.op == 0x50);
        let want_psr = if chip < 2 { psr_lo } else { psr_up };
        match psr {
            Some(p) if p.nparams == 1 && p.params[0] == want_psr => {}
            other => fails.push(("mode-packing".into(), vec![format!("chip={}", CHIP_NAMES[chip]), "PSR".into()], format!("PSR of {} is {:?}, expected [{:02X}]", CHIP_NAMES[chip], other.map(|p| p.params.clone()), want_psr))),
        }
        match cdi {
            Some(c) if c.nparams == 2 && c.params[0] == cdi0 && c.params[1] == cdi1 => {}
            other => fails.push(("mode-packing".into(), vec![format!("chip={}", CHIP_NAMES[chip]), "CDI".into()], format!("CDI of {} is {:?}, expected [{:02X} {:02X}] (config {})", CHIP_NAMES[chip], other.map(|p| p.params.clone()), cdi0, cdi1, cfg))),
        }
        rep.count("mode_registers_checked", 2);
    }
    check_pins(&rig, &mut fails);
    for (class, tags, detail) in fails {
        rep.fail(Failure { panel: "epd12in48b_v2".into(), entry: entry.clone(), class, tags, detail, case: case.clone() });
    }
}

/// every other public call: pins released, D/C discipline
fn check_other(rep: &mut Report) {
    let seqs: Vec<Vec<Op12>> = vec![
        vec![Op12::Reset],
        vec![Op12::Refresh],
        vec![Op12::BeginRefresh, Op12::PollUntilIdle],
        vec![Op12::RefreshPartial((8, 8, 64, 64))],
        vec![Op12::RefreshPartial((640, 480, 32, 32))],
        vec![Op12::BeginRefreshPartial((0, 0, 1304, 984)), Op12::PollUntilIdle],
        vec![Op12::PowerOff],
        vec![Op12::Hibernate],
        vec![Op12::GetStatus],
        vec![Op12::SetLut(0x20, vec![1; 60])],
        vec![Op12::SetLut(0x20, vec![1; 10])],
        vec![Op12::SetLut(0x21, vec![2; 42])],
        vec![Op12::SetLut(0x22, vec![3; 7])],
        vec![Op12::SetLut(0x23, vec![4; 60])],
        vec![Op12::SetLut(0x24, vec![5; 59])],
        vec![Op12::SetLut(0x25, vec![6; 1])],
        // tables longer than the register (one of the 60-byte tables handed to a 42-byte loader, or more than
        // 60 bytes): whatever the driver does with the surplus, the lines are released at the end of the call
        vec![Op12::SetLut(0x21, vec![7; 60])],
        vec![Op12::SetLut(0x25, vec![8; 43])],
        vec![Op12::SetLut(0x20, vec![9; 61])],
        vec![Op12::SetLut(0x24, vec![10; 100])],
        vec![Op12::SetLut(0x22, vec![]), Op12::SetLut(0x23, vec![11; 64]), Op12::Write1(pixels((W / 8) as usize, 1, 81))],
    ];
    for seq in seqs {
        let mut rig = Rig12::ready();
        for op in &seq {
            rep.eval("epd12in48b_v2");
            let o = rig.apply(op);
            let case = J::obj().set("panel", "epd12in48b_v2").set("op", op.to_json());
            rep.nontrivial(hash_str(&format!("other|{:?}", op.to_json().to_string())));
            if !o.is_ok() {
                rep.fail(Failure { panel: "epd12in48b_v2".into(), entry: op.name().into(), class: "panic".into(), tags: vec![], detail: o.short(), case });
                break;
            }
            let mut fails = Vec::new();
            check_pins(&rig, &mut fails);
            // partial refresh: every chip's window equals the intersection rule as well
            if let Op12::RefreshPartial(w) | Op12::BeginRefreshPartial(w) = op {
                for chip in 0..4 {
                    let cmds = cmds_of_op(&rig, chip);
                    let wins: Vec<&CmdRec> = cmds.iter().filter(|c| c.op == 0x90).collect();
                    if let (Some(g), Some(want)) = (wins.first(), expected_window(*w, chip)) {
                        if g.params[..] != want[..] {
                            fails.push(("window-not-intersection".into(), vec![format!("chip={}", CHIP_NAMES[chip])], format!("chip {} window block [{}], expected [{}]", CHIP_NAMES[chip], crate::props::common::hex(&g.params), crate::props::common::hex(&want))));
                        }
                    }
                }
            }
            // LUT uploads are padded with zeroes to the documented register length
            if let Op12::SetLut(r, d) = op {
                let want = if *r == 0x21 || *r == 0x25 { 42 } else { 60 };
                for chip in 0..4 {
                    let cmds = cmds_of_op(&rig, chip);
                    match cmds.iter().find(|c| c.op == *r) {
                        Some(c) if c.nparams as usize == want.max(d.len()) => {}
                        // (what happens to bytes beyond the register is not C15's matter)
                        Some(c) if d.len() > want && c.nparams as usize >= want => {}
                        other => fails.push(("row-slice".into(), vec!["lut-length".into()], format!("LUT {:02X} on {}: {:?} bytes, expected {}", r, CHIP_NAMES[chip], other.map(|c| c.nparams), want))),
                    }
                }
            }
            for (class, tags, detail) in fails {
                rep.fail(Failure { panel: "epd12in48b_v2".into(), entry: op.name().into(), class, tags, detail, case: case.clone() });
            }
        }
    }
}

/// warm start: the driver takes over lines that are not at the idle level it assumes (all chip selects
/// asserted, D/C high) and the first traffic is a write, without reset(): every byte must still reach only
/// the sub-display that owns it - the per-controller streams must equal those of a start on released lines
fn check_power_on(rep: &mut Report) {
    let rst = Pin::RstM1S1.bit() | Pin::RstM2S2.bit();
    let cs = Pin::CsM1.bit() | Pin::CsS1.bit() | Pin::CsM2.bit() | Pin::CsS2.bit();
    let dc = Pin::DcM1S1.bit() | Pin::DcM2S2.bit();
    let benign = rst | cs;
    let hostile: [(&str, u16); 4] = [("all-selected", rst), ("all-selected,dc-high", rst | dc), ("lower-pair-selected", rst | Pin::CsM2.bit() | Pin::CsS2.bit()), ("upper-pair-selected,dc-high", rst | dc | Pin::CsM1.bit() | Pin::CsS1.bit())];
    let rb = (W / 8) as usize;
    let firsts: Vec<Op12> = vec![
        Op12::Write1(pixels(rb, H as usize, 0xA1)),
        Op12::Write2(pixels(rb, 3, 0xA2)),
        Op12::Write1Partial((632, 484, 32, 16), pixels(4, 16, 0xA3)),
        Op12::Write2Partial((8, 8, 64, 4), pixels(8, 4, 0xA4)),
    ];
    let stream = |levels: u16, op: &Op12| -> Option<Vec<Vec<(u8, u32, u64)>>> {
        let mut rig = Rig12::new(|b| b.levels = levels);
        if !rig.apply(op).is_ok() {
            return None;
        }
        let b = rig.board.borrow();
        Some(b.chips.iter().map(|c| c.cmds.iter().map(|r| (r.op, r.nparams, r.hash)).collect()).collect())
    };
    for op in &firsts {
        let base = stream(benign, op);
        for (name, lv) in hostile {
            rep.eval("epd12in48b_v2");
            rep.nontrivial(hash_str(&format!("c15pl|{}|{}", name, op.to_json().to_string())));
            let got = stream(lv, op);
            let (Some(base), Some(got)) = (&base, &got) else {
                continue;
            };
            for chip in 0..4 {
                rep.count("power_on_streams_compared", 1);
                if base[chip] != got[chip] {
                    let k = base[chip].iter().zip(got[chip].iter()).position(|(a, b)| a != b).unwrap_or(base[chip].len().min(got[chip].len()));
                    rep.fail(Failure {
                        panel: "epd12in48b_v2".into(),
                        entry: op.name().into(),
                        class: "cs-not-exclusive".into(),
                        tags: vec![format!("chip={}", CHIP_NAMES[chip]), format!("power-on={}", name)],
                        detail: format!("first call after new() without reset(), lines powering up as {}: controller {} decodes {:02X?} as command #{} instead of {:02X?} - it was (de)selected by the power-on level, not by the driver", name, CHIP_NAMES[chip], got[chip].get(k).map(|r| (r.0, r.1)), k, base[chip].get(k).map(|r| (r.0, r.1))),
                        case: J::obj().set("panel", "epd12in48b_v2").set("op", op.to_json()).set("power_on_levels", name),
                    });
                    break;
                }
            }
        }
    }
}

pub fn run(ctx: &Ctx) -> Report {
    let mut cases: Vec<Case> = Vec::new();
    let mut rng = Rng::derive(ctx.seed, 0xC15);
    let mut wins: Vec<R4> = Vec::new();
    let mut push = |x: u32, y: u32, w: u32, h: u32, wins: &mut Vec<R4>| {
        if x % 8 == 0 && w % 8 == 0 && w >= 8 && h >= 1 && x + w <= W && y + h <= H {
            let r = (x, y, w, h);
            if !wins.contains(&r) {
                wins.push(r);
            }
        }
    };
    // coarse grid of origins and sizes
    let step_x = if ctx.tier_thorough { 64 } else { 104 };
    let step_y = if ctx.tier_thorough { 64 } else { 123 };
    let sizes: Vec<(u32, u32)> = if ctx.tier_thorough { vec![(8, 1), (64, 40), (656, 8), (200, 500), (1304, 984), (648, 492), (16, 984)] } else { vec![(8, 1), (64, 40), (656, 300), (1304, 984)] };
    let mut x = 0;
    while x < W {
        let mut y = 0;
        while y < H {
            for (w, h) in &sizes {
                push(x, y, (*w).min(W - x) & !7, (*h).min(H - y), &mut wins);
            }
            y += step_y;
        }
        x += step_x;
    }
    // every window with an edge at / next to the seams and the panel edges
    let xe = [632u32, 640, 648, 656, 664];
    let ye = [484u32, 488, 491, 492, 493, 496, 500];
    let fine = ctx.tier_thorough;
    for ax in xe {
        for ay in ye {
            for (w, h) in [(8u32, 1u32), (16, 2), (24, 9), (64, 16)] {
                // window starting at the seam point, ending at it, and straddling it
                push(ax, ay, w, h, &mut wins);
                if ax >= w && ay >= h {
                    push(ax - w, ay - h, w, h, &mut wins);
                    push(ax - w, ay, w, h, &mut wins);
                    push(ax, ay - h, w, h, &mut wins);
                }
                if ax >= 8 && ay >= 1 {
                    push(ax - 8, ay - 1, w + 8, h + 1, &mut wins);
                }
                if fine {
                    push(ax - 8, 0, w, H, &mut wins);
                    push(0, ay - 1, W, h, &mut wins);
                }
            }
        }
    }
    // byte-carry boundaries of the window registers: parts ending or starting at local column / row 255, 256,
    // 511, 512 of every sub-display (mirrored for the upper two)
    for c in 0..4 {
        let r = CHIP_RECTS[c];
        for l in [256u32, 512] {
            if l < r.2 {
                for gx in [r.0 + l, r.0 + r.2 - l] {
                    let y = r.1 + 8;
                    push(gx.saturating_sub(16), y, 16, 3, &mut wins);
                    push(gx, y, 16, 3, &mut wins);
                    push(gx.saturating_sub(8), y, 16, 3, &mut wins);
                    push(gx.saturating_sub(64), y, 64, 2, &mut wins);
                }
            }
            if l < r.3 {
                let gy = r.1 + l;
                let x = r.0 + 16;
                push(x, gy - 2, 16, 2, &mut wins);
                push(x, gy, 16, 2, &mut wins);
                push(x, gy - 1, 16, 2, &mut wins);
            }
        }
    }
    for (w, h) in [(8u32, 1u32), (1304, 1), (8, 984), (1296, 983)] {
        push(0, 0, w, h, &mut wins);
        push(W - w, H - h, w, h, &mut wins);
        push(W - w, 0, w, h, &mut wins);
        push(0, H - h, w, h, &mut wins);
    }
    let nrand = if ctx.tier_thorough { 3000 } else { 150 };
    for _ in 0..nrand {
        let wb = rng.range(1, (W / 8) as i64) as u32;
        let xb = rng.range(0, (W / 8 - wb) as i64) as u32;
        let h = rng.range(1, H as i64) as u32;
        let y = rng.range(0, (H - h) as i64) as u32;
        push(xb * 8, y, wb * 8, h, &mut wins);
    }
    for (i, w) in wins.iter().enumerate() {
        for plane2 in [false, true] {
            if !ctx.tier_thorough && plane2 && i % 3 != 0 {
                continue;
            }
            let mut rows = vec![w.3];
            if w.3 > 1 {
                rows.push(1);
            }
            if w.3 > 3 {
                rows.push(3);
            }
            for r in rows {
                cases.push(Case { win: Some(*w), rows: r, plane2, salt: i as u64 * 7 + r as u64, pred: None });
            }
        }
    }
    for plane2 in [false, true] {
        for rows in [984u32, 1, 3, 492] {
            cases.push(Case { win: None, rows, plane2, salt: 0xF00 + rows as u64, pred: None });
        }
    }
    // the same writes directly after another public call on the same driver (no reset in between):
    // the driver caches its control word, so what a call does may depend on how the previous one ended
    let preds = |w: R4| -> Vec<Op12> {
        vec![
            Op12::Write1Partial(w, pixels((w.2 / 8) as usize, 1, 77)),
            Op12::Write2Partial(w, pixels((w.2 / 8) as usize, 1, 78)),
            Op12::Write1Partial((8, 8, 64, 4), vec![0xA5; 32]),
            Op12::Write2Partial((1232, 976, 72, 8), vec![0x5A; 72]),
            Op12::Write1(pixels((W / 8) as usize, 1, 79)),
            Op12::Write2(pixels((W / 8) as usize, 2, 80)),
            Op12::Refresh,
            Op12::RefreshPartial(w),
            Op12::BeginRefresh,
            // the asynchronous partial refresh returns without the blocking wrapper's epilogue; a small fixed
            // window as well, so that full-frame writes follow a refresh of less than the panel
            Op12::BeginRefreshPartial(w),
            Op12::BeginRefreshPartial((64, 40, 128, 24)),
            Op12::RefreshPartial((1232, 976, 72, 8)),
            Op12::SetMode(9),
            Op12::SetLut(0x22, vec![7; 11]),
            Op12::PowerOff,
            Op12::GetStatus,
        ]
    };
    let base: Vec<Case> = cases.clone();
    let np = preds((0, 0, 8, 1)).len();
    for (i, c) in base.iter().enumerate() {
        let w = c.win.unwrap_or((0, 0, W, H));
        let ps = preds(w);
        if c.win.is_none() {
            // the few full-frame writes: after every predecessor, in both tiers
            for p in ps {
                cases.push(Case { pred: Some(p), ..c.clone() });
            }
        } else if ctx.tier_thorough {
            // every predecessor for a third of the cases, a rotating one for the rest
            if i % 3 == 0 {
                for p in ps {
                    cases.push(Case { pred: Some(p), ..c.clone() });
                }
            } else {
                cases.push(Case { pred: Some(ps[i % np].clone()), ..c.clone() });
            }
        } else if i % 2 == 0 {
            cases.push(Case { pred: Some(ps[(i / 2) % np].clone()), ..c.clone() });
        }
    }
    let mut rep = par_run(&cases, ctx.threads, |_, c, rep| check_write(c, rep));
    let ncfg = 32;
    for cfg in 0..ncfg {
        check_mode(cfg, false, &mut rep);
        check_mode(cfg, true, &mut rep);
    }
    check_other(&mut rep);
    check_power_on(&mut rep);
    rep
}
