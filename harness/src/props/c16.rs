//! C16 — rectangle algebra is exact.
//!
//! Oracle: a rectangle is the product of two half-open intervals; for small coordinates each axis is
//! a u64 bit set (bit i set <=> column/row i covered) and `pixels(a ∩ b)` must equal
//! `pixels(a) & pixels(b)` per axis; for rectangles up to u32::MAX the same is done with interval
//! arithmetic in u64. The real `Rect::intersect`, `Rect::is_empty` and `Rect::sub_offset` are run on
//! every pair / rectangle and compared; panics (arithmetic overflow inside the stated precondition)
//! are caught and reported.
use crate::json::J;
use crate::prng::{mix64, Rng};
use crate::report::{par_run, Failure, Report};
use crate::Ctx;
use epd_waveshare::rect::Rect;
use std::panic::{catch_unwind, AssertUnwindSafe};

fn h64(v: &[u64]) -> u64 {
    let mut h = 0xC16u64;
    for &x in v {
        h = mix64(h ^ x.wrapping_mul(0x9E3779B97F4A7C15));
    }
    h
}

fn panic_msg(p: Box<dyn std::any::Any + Send>) -> String {
    if let Some(s) = p.downcast_ref::<&str>() {
        s.to_string()
    } else if let Some(s) = p.downcast_ref::<String>() {
        s.clone()
    } else {
        "<non-string panic payload>".to_string()
    }
}

fn rj(r: &Rect) -> J {
    J::obj().set("x", r.x).set("y", r.y).set("w", r.w).set("h", r.h)
}
fn rs(r: &Rect) -> String {
    format!("Rect(x={}, y={}, w={}, h={})", r.x, r.y, r.w, r.h)
}

/// relation of two half-open intervals [a0,a1) and [b0,b1), coarse, symmetric
fn axis_rel(a0: u64, a1: u64, b0: u64, b1: u64) -> &'static str {
    if a0 == a1 || b0 == b1 {
        "empty-operand"
    } else if a1 < b0 || b1 < a0 {
        "disjoint"
    } else if a1 == b0 || b1 == a0 {
        "touch"
    } else if a0 == b0 && a1 == b1 {
        "equal"
    } else if (a0 <= b0 && b1 <= a1) || (b0 <= a0 && a1 <= b1) {
        "contain"
    } else {
        "overlap"
    }
}

fn rel_tags(a: &Rect, b: &Rect) -> Vec<String> {
    let x = axis_rel(a.x as u64, a.x as u64 + a.w as u64, b.x as u64, b.x as u64 + b.w as u64);
    let y = axis_rel(a.y as u64, a.y as u64 + a.h as u64, b.y as u64, b.y as u64 + b.h as u64);
    vec![format!("x:{}", x), format!("y:{}", y)]
}

fn fail_pair(rep: &mut Report, class: &str, rule: &str, a: &Rect, b: &Rect, detail: String, scale: &str) {
    let mut tags = vec![rule.to_string()];
    tags.extend(rel_tags(a, b));
    tags.push(scale.to_string());
    rep.fail(Failure {
        panel: "Rect".into(),
        entry: "intersect".into(),
        class: class.into(),
        tags,
        detail,
        case: J::obj().set("a", rj(a)).set("b", rj(b)),
    });
}

/// interval model shared by both scales: ((lo_x, hi_x), (lo_y, hi_y)) of the true intersection, None if empty
fn model(a: &Rect, b: &Rect) -> Option<(u64, u64, u64, u64)> {
    let lx = (a.x as u64).max(b.x as u64);
    let hx = (a.x as u64 + a.w as u64).min(b.x as u64 + b.w as u64);
    let ly = (a.y as u64).max(b.y as u64);
    let hy = (a.y as u64 + a.h as u64).min(b.y as u64 + b.h as u64);
    if lx < hx && ly < hy {
        Some((lx, hx, ly, hy))
    } else {
        None
    }
}

/// all rules for one ordered pair given the two real results; returns true when the intersection is non-empty
fn check_pair(rep: &mut Report, a: &Rect, b: &Rect, r: &Rect, r2: &Rect, r_empty: bool, scale: &str, bitsets: bool) -> bool {
    let m = model(a, b);
    let geo_empty = r.w == 0 || r.h == 0; // pixel set of the returned rectangle
    match m {
        Some((lx, hx, ly, hy)) => {
            let ok = !geo_empty && r.x as u64 == lx && r.y as u64 == ly && r.x as u64 + r.w as u64 == hx && r.y as u64 + r.h as u64 == hy;
            if !ok {
                fail_pair(
                    rep,
                    "pixel-set",
                    "pixels-differ",
                    a,
                    b,
                    format!("{}.intersect({}) = {} but the common pixels are x in [{},{}) and y in [{},{})", rs(a), rs(b), rs(r), lx, hx, ly, hy),
                    scale,
                );
            }
        }
        None => {
            if !geo_empty {
                fail_pair(rep, "pixel-set", "pixels-differ", a, b, format!("{}.intersect({}) = {} covers pixels although the operands share none", rs(a), rs(b), rs(r)), scale);
            }
        }
    }
    if bitsets {
        // independent second formulation for small coordinates: per-axis bit sets
        let ms = |o: u32, n: u32| -> u64 { (if n >= 64 { u64::MAX } else { (1u64 << n) - 1 }) << o };
        let (ax, ay, bx, by) = (ms(a.x, a.w), ms(a.y, a.h), ms(b.x, b.w), ms(b.y, b.h));
        let (rx, ry) = (ms(r.x, r.w), ms(r.y, r.h));
        let (ex, ey) = (ax & bx, ay & by);
        let want_empty = ex == 0 || ey == 0;
        let got_empty = rx == 0 || ry == 0;
        if want_empty != got_empty || (!want_empty && (rx != ex || ry != ey)) {
            fail_pair(
                rep,
                "pixel-set",
                "bitset-differs",
                a,
                b,
                format!("{}.intersect({}) = {}: column set {:#x} / row set {:#x}, expected {:#x} / {:#x}", rs(a), rs(b), rs(r), rx, ry, ex, ey),
                scale,
            );
        }
        // inside both operands
        if !got_empty && ((rx & !ax) != 0 || (rx & !bx) != 0 || (ry & !ay) != 0 || (ry & !by) != 0) {
            fail_pair(rep, "pixel-set", "not-inside-operands", a, b, format!("{}.intersect({}) = {} has pixels outside an operand", rs(a), rs(b), rs(r)), scale);
        }
    } else if !geo_empty {
        let inside = |o: &Rect| r.x >= o.x && r.y >= o.y && r.x as u64 + r.w as u64 <= o.x as u64 + o.w as u64 && r.y as u64 + r.h as u64 <= o.y as u64 + o.h as u64;
        if !inside(a) || !inside(b) {
            fail_pair(rep, "pixel-set", "not-inside-operands", a, b, format!("{}.intersect({}) = {} has pixels outside an operand", rs(a), rs(b), rs(r)), scale);
        }
    }
    if r_empty != geo_empty {
        fail_pair(rep, "pixel-set", "is_empty", a, b, format!("{}.is_empty() = {} but its pixel set is {}", rs(r), r_empty, if geo_empty { "empty" } else { "not empty" }), scale);
    }
    // commutativity: as pixel sets always, as structs when non-empty
    let geo2_empty = r2.w == 0 || r2.h == 0;
    if geo_empty != geo2_empty || (!geo_empty && r != r2) {
        fail_pair(rep, "not-commutative", "commuted-result-differs", a, b, format!("a.intersect(b) = {} but b.intersect(a) = {} for a = {}, b = {}", rs(r), rs(r2), rs(a), rs(b)), scale);
    }
    m.is_some()
}

/// per-rectangle rules: idempotence and sub_offset
fn check_single(rep: &mut Report, a: &Rect, offsets: &[(u32, u32)], scale: &str) {
    let a_empty_geo = a.w == 0 || a.h == 0;
    match catch_unwind(AssertUnwindSafe(|| (a.intersect(*a), a.is_empty()))) {
        Err(p) => {
            rep.count("panics_caught", 1);
            fail_pair(rep, "pixel-set", "panic", a, a, format!("{}.intersect(self) panicked: {}", rs(a), panic_msg(p)), scale);
        }
        Ok((r, e)) => {
            rep.count("idempotence_checks", 1);
            let r_geo_empty = r.w == 0 || r.h == 0;
            if (a_empty_geo && !r_geo_empty) || (!a_empty_geo && r != *a) {
                fail_pair(rep, "pixel-set", "not-idempotent", a, a, format!("{}.intersect(self) = {}", rs(a), rs(&r)), scale);
            }
            if e != a_empty_geo {
                fail_pair(rep, "pixel-set", "is_empty", a, a, format!("{}.is_empty() = {}", rs(a), e), scale);
            }
        }
    }
    for &(dx, dy) in offsets {
        rep.count("sub_offset_checks", 1);
        let mk = |rep: &mut Report, rule: &str, detail: String| {
            rep.fail(Failure {
                panel: "Rect".into(),
                entry: "sub_offset".into(),
                class: "sub-offset".into(),
                tags: vec![
                    rule.to_string(),
                    if dx == a.x { "dx==x".into() } else if dx == 0 { "dx==0".into() } else { "0<dx<x".into() },
                    if dy == a.y { "dy==y".into() } else if dy == 0 { "dy==0".into() } else { "0<dy<y".into() },
                    scale.to_string(),
                ],
                detail,
                case: J::obj().set("a", rj(a)).set("dx", dx).set("dy", dy),
            });
        };
        match catch_unwind(AssertUnwindSafe(|| a.sub_offset(dx, dy))) {
            Err(p) => {
                rep.count("panics_caught", 1);
                mk(rep, "panic", format!("{}.sub_offset({}, {}) panicked: {}", rs(a), dx, dy, panic_msg(p)));
            }
            Ok(r) => {
                if r.w != a.w || r.h != a.h {
                    mk(rep, "size-changed", format!("{}.sub_offset({}, {}) = {}", rs(a), dx, dy, rs(&r)));
                }
                if r.x as u64 + dx as u64 != a.x as u64 || r.y as u64 + dy as u64 != a.y as u64 {
                    mk(rep, "origin", format!("{}.sub_offset({}, {}) = {}, expected origin ({}, {})", rs(a), dx, dy, rs(&r), a.x - dx, a.y - dy));
                }
            }
        }
    }
}

/// exhaustive small scale: `a` fixed, `b` over all rectangles with coordinates and sizes in 0..=n
fn small_case(rep: &mut Report, a: Rect, n: u32) {
    let scale = "small";
    let mut pairs = 0u64;
    let mut nonempty = 0u64;
    // fast path: the whole inner loop under one catch_unwind; on a panic fall back to per-pair guards
    let fast = catch_unwind(AssertUnwindSafe(|| {
        let mut local = Report::new();
        let (mut p, mut ne) = (0u64, 0u64);
        for bx in 0..=n {
            for by in 0..=n {
                for bw in 0..=n {
                    for bh in 0..=n {
                        let b = Rect::new(bx, by, bw, bh);
                        let r = a.intersect(b);
                        let r2 = b.intersect(a);
                        let e = r.is_empty();
                        p += 1;
                        if check_pair(&mut local, &a, &b, &r, &r2, e, scale, true) {
                            ne += 1;
                        }
                    }
                }
            }
        }
        (local, p, ne)
    }));
    match fast {
        Ok((local, p, ne)) => {
            rep.merge(local);
            pairs = p;
            nonempty = ne;
        }
        Err(_) => {
            for bx in 0..=n {
                for by in 0..=n {
                    for bw in 0..=n {
                        for bh in 0..=n {
                            let b = Rect::new(bx, by, bw, bh);
                            pairs += 1;
                            match catch_unwind(AssertUnwindSafe(|| {
                                let r = a.intersect(b);
                                (r, b.intersect(a), r.is_empty())
                            })) {
                                Err(p) => {
                                    rep.count("panics_caught", 1);
                                    fail_pair(rep, "pixel-set", "panic", &a, &b, format!("{}.intersect({}) (or the commuted call) panicked: {}", rs(&a), rs(&b), panic_msg(p)), scale);
                                }
                                Ok((r, r2, e)) => {
                                    if check_pair(rep, &a, &b, &r, &r2, e, scale, true) {
                                        nonempty += 1;
                                    }
                                }
                            }
                        }
                    }
                }
            }
        }
    }
    // idempotence and every admissible offset
    let mut offs = Vec::new();
    for dx in 0..=a.x {
        for dy in 0..=a.y {
            offs.push((dx, dy));
        }
    }
    check_single(rep, &a, &offs, scale);
    let evals = pairs + 1 + offs.len() as u64;
    rep.evaluations += evals;
    *rep.per_panel.entry("Rect".into()).or_insert(0) += evals;
    rep.count("pairs_checked", pairs);
    rep.count("pairs_with_nonempty_intersection", nonempty);
    rep.count("nontrivial_items", nonempty);
    if nonempty > 0 {
        rep.nontrivial(h64(&[1, a.x as u64, a.y as u64, a.w as u64, a.h as u64]));
    }
    if a == Rect::new(2, 1, 3, 3) {
        let b = Rect::new(4, 0, 3, 2);
        if let Ok(r) = catch_unwind(AssertUnwindSafe(|| a.intersect(b))) {
            rep.sample(J::obj().set("a", rj(&a)).set("b", rj(&b)).set("a.intersect(b)", rj(&r)).set("model_common_pixels", format!("{:?}", model(&a, &b))));
        }
        let b = Rect::new(5, 1, 2, 2);
        if let Ok(r) = catch_unwind(AssertUnwindSafe(|| a.intersect(b))) {
            rep.sample(J::obj().set("a", rj(&a)).set("b", rj(&b)).set("a.intersect(b)", rj(&r)).set("is_empty", r.is_empty()).set("model_common_pixels", format!("{:?}", model(&a, &b))));
        }
    }
}

/// one axis of a large rectangle respecting origin + size <= u32::MAX
fn big_axis(rng: &mut Rng) -> (u32, u32) {
    let max = u32::MAX as u64;
    match rng.below(6) {
        0 => {
            let o = rng.below(max + 1);
            (o as u32, rng.below(max - o + 1) as u32)
        }
        1 => {
            // far edge exactly at u32::MAX
            let o = rng.below(max + 1);
            (o as u32, (max - o) as u32)
        }
        2 => {
            // small size near the top of the range
            let s = rng.below(64);
            let o = max - s - rng.below(64).min(max - s);
            (o as u32, s as u32)
        }
        3 => (rng.below(1 << 16) as u32, rng.below(1 << 16) as u32),
        4 => (0, rng.below(max + 1) as u32),
        _ => {
            let o = rng.below(max + 1);
            (o as u32, rng.below((max - o).min(4096) + 1) as u32)
        }
    }
}

/// second operand derived from the first so that touching / contained / overlapping cases are frequent
fn near_axis(rng: &mut Rng, o: u32, s: u32) -> (u32, u32) {
    let max = u32::MAX as u64;
    let (o, s) = (o as u64, s as u64);
    let anchors = [o, o + s, o + s / 2, o.saturating_sub(1), (o + s + 1).min(max)];
    let jitter = rng.below(5) as i64 - 2;
    let st = (*rng.pick(&anchors) as i64 + jitter).clamp(0, max as i64) as u64;
    let en_anchor = *rng.pick(&anchors) as i64 + (rng.below(5) as i64 - 2);
    let en = (en_anchor.clamp(0, max as i64) as u64).max(st);
    let en = if rng.chance(1, 4) { (st + rng.below(max - st + 1)).min(max) } else { en };
    (st as u32, (en - st) as u32)
}

fn large_case(rep: &mut Report, seed: u64, chunk: u64, n: u64) {
    let scale = "large";
    let mut rng = Rng::derive(seed, 0xC16_0000 + chunk);
    let mut nonempty = 0u64;
    let mut evals = 0u64;
    for i in 0..n {
        let (ax, aw) = big_axis(&mut rng);
        let (ay, ah) = big_axis(&mut rng);
        let a = Rect::new(ax, ay, aw, ah);
        let (bx, bw) = if rng.chance(2, 3) { near_axis(&mut rng, ax, aw) } else { big_axis(&mut rng) };
        let (by, bh) = if rng.chance(2, 3) { near_axis(&mut rng, ay, ah) } else { big_axis(&mut rng) };
        let b = Rect::new(bx, by, bw, bh);
        evals += 1;
        match catch_unwind(AssertUnwindSafe(|| {
            let r = a.intersect(b);
            (r, b.intersect(a), r.is_empty())
        })) {
            Err(p) => {
                rep.count("panics_caught", 1);
                fail_pair(rep, "pixel-set", "panic", &a, &b, format!("{}.intersect({}) (or the commuted call) panicked: {}", rs(&a), rs(&b), panic_msg(p)), scale);
            }
            Ok((r, r2, e)) => {
                if check_pair(rep, &a, &b, &r, &r2, e, scale, false) {
                    nonempty += 1;
                }
                if chunk == 0 && i < 2 {
                    rep.sample(J::obj().set("a", rj(&a)).set("b", rj(&b)).set("a.intersect(b)", rj(&r)).set("model_common_pixels", format!("{:?}", model(&a, &b))));
                }
            }
        }
        if i % 4 == 0 {
            let dx = match rng.below(3) {
                0 => a.x,
                1 => 0,
                _ => rng.below(a.x as u64 + 1) as u32,
            };
            let dy = match rng.below(3) {
                0 => a.y,
                1 => 0,
                _ => rng.below(a.y as u64 + 1) as u32,
            };
            check_single(rep, &a, &[(dx, dy)], scale);
            evals += 2;
        }
    }
    rep.evaluations += evals;
    *rep.per_panel.entry("Rect".into()).or_insert(0) += evals;
    rep.count("pairs_checked", n);
    rep.count("large_pairs_checked", n);
    rep.count("large_pairs_with_nonempty_intersection", nonempty);
    rep.count("pairs_with_nonempty_intersection", nonempty);
    rep.count("nontrivial_items", nonempty);
    if nonempty > 0 {
        rep.nontrivial(h64(&[2, seed, chunk]));
    }
}

enum Case {
    Small(Rect),
    Large(u64, u64),
}

pub fn run(ctx: &Ctx) -> Report {
    let miri = ctx.mode == "miri";
    let n: u32 = if miri {
        3
    } else if ctx.tier_thorough {
        12
    } else {
        6
    };
    let mut cases = Vec::new();
    for x in 0..=n {
        for y in 0..=n {
            for w in 0..=n {
                for h in 0..=n {
                    cases.push(Case::Small(Rect::new(x, y, w, h)));
                }
            }
        }
    }
    let (chunks, per) = if miri {
        (1u64, 200u64)
    } else if ctx.tier_thorough {
        (1000, 10_000)
    } else {
        (100, 2_000)
    };
    for c in 0..chunks {
        cases.push(Case::Large(c, per));
    }
    let cases = crate::report::shard(cases, ctx.shard);
    let threads = if miri { 1 } else { ctx.threads };
    let seed = ctx.seed;
    let mut rep = par_run(&cases, threads, |_i, c, rep| match c {
        Case::Small(a) => small_case(rep, *a, n),
        Case::Large(c, per) => large_case(rep, seed, *c, *per),
    });
    // numeric boundaries of the coordinate type (sign bit, 16-bit carry, top of the range): translation by
    // every boundary offset that does not exceed the origin, and intersections among boundary rectangles
    if ctx.shard.0 == 0 {
        let b: [u32; 14] = [0, 1, 2, 0x7FFF, 0x8000, 0xFFFF, 0x1_0000, 0x7FFF_FFFE, 0x7FFF_FFFF, 0x8000_0000, 0x8000_0001, 0xFFFF_FFFE, 0xFFFF_FFFF, 0x4000_0000];
        let sizes: [u32; 6] = [0, 1, 2, 0x7FFF_FFFF, 0x8000_0000, 0xFFFF_FFFF];
        let mut rects: Vec<Rect> = Vec::new();
        for &x in &b {
            for &y in if miri { &b[..3] } else { &b[..] } {
                for &w in &sizes {
                    if x as u64 + w as u64 > u32::MAX as u64 {
                        continue;
                    }
                    let hh = sizes[(x as usize + y as usize + w as usize) % sizes.len()];
                    if y as u64 + hh as u64 > u32::MAX as u64 {
                        continue;
                    }
                    rects.push(Rect::new(x, y, w, hh));
                }
            }
        }
        for a in &rects {
            let offs: Vec<(u32, u32)> = b.iter().filter(|dx| **dx <= a.x).flat_map(|dx| b.iter().filter(|dy| **dy <= a.y).map(move |dy| (*dx, *dy))).collect();
            check_single(&mut rep, a, &offs, "boundary");
            rep.count("boundary_rectangles", 1);
        }
        if !miri {
            for a in rects.iter().step_by(3) {
                for bb in rects.iter().step_by(5) {
                    match catch_unwind(AssertUnwindSafe(|| (a.intersect(*bb), bb.intersect(*a), a.intersect(*bb).is_empty()))) {
                        Err(p) => {
                            rep.count("panics_caught", 1);
                            fail_pair(&mut rep, "pixel-set", "panic", a, bb, format!("{}.intersect({}) panicked: {}", rs(a), rs(bb), panic_msg(p)), "boundary");
                        }
                        Ok((r, r2, e)) => {
                            check_pair(&mut rep, a, bb, &r, &r2, e, "boundary", false);
                        }
                    }
                    rep.count("boundary_pairs_checked", 1);
                }
            }
        }
    }
    rep.count("small_rectangles", ((n + 1) as u64).pow(4));
    rep.note(&format!(
        "small scale: all ordered pairs of rectangles with x,y,w,h in 0..={} (bit-set oracle and interval oracle); large scale: {} seeded pairs up to u32::MAX with x+w and y+h representable (interval oracle in u64), second operand derived from the first in 2/3 of the draws so that touching / contained / overlapping configurations are frequent",
        n,
        chunks * per
    ));
    rep.note("distinct_nontrivial hashes one entry per first operand (small) or per seeded chunk (large) that had at least one non-empty intersection; the exact number of pairs with a non-empty intersection is counters.nontrivial_items");
    rep.note("evaluation = one ordered pair (a∩b and b∩a computed by the real code and compared with the model), one idempotence check, or one sub_offset call");
    rep
}
