//! C17 — the selected refresh waveform is sticky across reload and wake-up.
//! The controller model keeps the LUT registers; reference uploads per mode are *measured*.
use crate::json::J;
use crate::ops::*;
use crate::panels::*;
use crate::props::common::*;
use crate::prng::hash_str;
use crate::report::{par_run, Failure, Report};
use crate::Ctx;

type Upload = Vec<(u8, u64, u32)>; // (register, hash, length) in upload order

fn uploads_in_last_op(rig: &Rig) -> Upload {
    let b = rig.board.borrow();
    let chip = b.chip();
    chip.lut_uploads.iter().filter(|u| u.3 == chip.opidx).map(|u| (u.0, u.1, u.2)).collect()
}

#[derive(Clone, Copy, Debug, PartialEq, Eq, Hash)]
enum S {
    SelFull,
    SelQuick,
    Reload,
    SleepWake,
    Display,
    RefreshFull,  // 2in13_v2 set_refresh
    RefreshQuick, // 2in13_v2 set_refresh
    /// sleep and wake_up as separate steps, so that a selection can be made in between
    Sleep,
    Wake,
    Frame,        // update_and_display_frame (thorough tier: stickiness must survive ordinary use)
    Clear,        // clear_frame
    /// another symbol of the panel's alphabet (partial updates / clears, quick-refresh pairs): the stickiness
    /// must survive them as well
    Other(u8),
}
impl S {
    fn ops(self, spec: &'static Spec) -> Vec<Op> {
        match self {
            S::Frame => vec![frame_op(spec, K::UpdateAndDisplay, 0xC17)],
            S::Other(i) => syms(spec)[i as usize].clone(),
            S::Clear => vec![Op::new(K::Clear)],
            S::SelFull => vec![Op::arg(K::SetLut, 1)],
            S::SelQuick => vec![Op::arg(K::SetLut, 2)],
            S::Reload => vec![Op::arg(K::SetLut, 0)],
            S::SleepWake => vec![Op::new(K::Sleep), Op::new(K::WakeUp)],
            S::Sleep => vec![Op::new(K::Sleep)],
            S::Wake => vec![Op::new(K::WakeUp)],
            S::Display => vec![Op::new(K::Display)],
            S::RefreshFull => vec![Op::arg(K::SetRefresh, 1)],
            S::RefreshQuick => vec![Op::arg(K::SetRefresh, 2)],
        }
    }
    fn tag(self) -> &'static str {
        match self {
            S::Other(_) => "other",
            S::SelFull => "select-full",
            S::SelQuick => "select-quick",
            S::Reload => "reload",
            S::SleepWake => "sleep+wake",
            S::Sleep => "sleep",
            S::Wake => "wake",
            S::Display => "display",
            S::RefreshFull => "set_refresh-full",
            S::RefreshQuick => "set_refresh-quick",
            S::Frame => "frame",
            S::Clear => "clear",
        }
    }
}

struct Refs {
    full: Upload,
    quick: Upload,
    init_uploads: bool,
}

fn measure(spec: &'static Spec) -> Refs {
    let m = |arg: u32| -> Upload {
        let mut r = Rig::simple(spec);
        let _ = r.apply(&Op::arg(K::SetLut, arg));
        uploads_in_last_op(&r)
    };
    let init_uploads = {
        let r = Rig::simple(spec);
        let b = r.board.borrow();
        !b.chip().lut_uploads.is_empty()
    };
    Refs { full: m(1), quick: m(2), init_uploads }
}

fn eval(spec: &'static Spec, refs: &Refs, seq: &[S], rep: Option<&mut Report>) -> Result<Vec<(String, String, Vec<String>, String)>, String> {
    let mut out = Vec::new();
    let mut rig = Rig::simple(spec);
    let mut last_quick = false;
    let mut asleep = false;
    let mut compared = 0u64;
    let name = |q: bool| if q { "quick" } else { "full" };
    for (i, s) in seq.iter().enumerate() {
        for o in s.ops(spec) {
            let r = rig.apply(&o);
            if !r.is_ok() {
                return Err(format!("{} -> {}", o.short(), r.short()));
            }
        }
        let up = uploads_in_last_op(&rig);
        let want = |q: bool| if q { &refs.quick } else { &refs.full };
        match s {
            S::SelFull | S::SelQuick => {
                let q = *s == S::SelQuick;
                last_quick = q;
                // (a selection made while the controller sleeps is only remembered: what reaches the sleeping
                // controller is not judged, the upload at wake-up is)
                if asleep {
                    continue;
                }
                compared += 1;
                if spec.lut == LutKind::FullQuick && up != *want(q) {
                    out.push(("set_lut".into(), "select-uploads-other-table".into(), vec![format!("mode={}", name(q))], format!("step {}: selecting {} uploaded {:?}, the reference upload of that mode is {:?}", i + 1, name(q), short(&up), short(want(q)))));
                }
            }
            S::RefreshFull | S::RefreshQuick => {
                let q = *s == S::RefreshQuick;
                let changed = q != last_quick;
                last_quick = q;
                // set_refresh re-initialises only when the mode changes; when it uploads, it must be the mode's tables
                if !up.is_empty() {
                    compared += 1;
                    if up != *want(q) {
                        out.push(("set_refresh".into(), "select-uploads-other-table".into(), vec![format!("mode={}", name(q))], format!("step {}: set_refresh({}) uploaded {:?}, expected {:?}", i + 1, name(q), short(&up), short(want(q)))));
                    }
                }
                let _ = changed;
            }
            S::Reload => {
                compared += 1;
                if up.is_empty() {
                    out.push(("set_lut".into(), "reload-uploads-nothing".into(), vec![], format!("step {}: set_lut(None) uploaded no table", i + 1)));
                } else if up != *want(last_quick) {
                    out.push(("set_lut".into(), "reload-uploads-other-mode".into(), vec![format!("last={}", name(last_quick))], format!("step {}: set_lut(None) uploaded {:?} while the mode last selected is {} ({:?})", i + 1, short(&up), name(last_quick), short(want(last_quick)))));
                }
            }
            S::Sleep => asleep = true,
            S::SleepWake | S::Wake => {
                asleep = false;
                if refs.init_uploads {
                    compared += 1;
                    if up != *want(last_quick) {
                        out.push(("wake_up".into(), "wake-reverts-mode".into(), vec![format!("last={}", name(last_quick))], format!("step {}: wake_up uploaded {:?} while the mode last selected is {} ({:?})", i + 1, short(&up), name(last_quick), short(want(last_quick)))));
                    }
                }
            }
            S::Display | S::Frame | S::Clear | S::Other(_) => {}
        }
    }
    if let Some(rep) = rep {
        rep.count("uploads_compared", compared);
        rep.count("lut_register_writes_observed", rig.board.borrow().chip().lut_uploads.len() as u64);
        rep.state(hash_str(spec.name) ^ rig.board.borrow().chip().lut_hash());
    }
    Ok(out)
}

fn short(u: &Upload) -> Vec<String> {
    u.iter().map(|(r, h, l)| format!("{:02X}:{}B:{:04x}", r, l, h & 0xFFFF)).collect()
}

struct Case {
    spec: &'static Spec,
    seq: Vec<S>,
    /// sequence with a selection between sleep and wake_up; `atomic` is the same sequence with the selection
    /// moved in front of an atomic sleep+wake step - only what that one does not show is reported
    atomic: Option<Vec<S>>,
}

pub fn run(ctx: &Ctx) -> Report {
    let mut cases = Vec::new();
    let mut pre = Report::new();
    for spec in panels_for(ctx) {
        if spec.lut == LutKind::None || !spec.has(K::SetLut) {
            continue;
        }
        let mut alpha = vec![S::SelFull, S::SelQuick, S::Reload, S::SleepWake, S::Display];
        if spec.has(K::SetRefresh) {
            alpha.push(S::RefreshFull);
            alpha.push(S::RefreshQuick);
        }
        if ctx.tier_thorough {
            alpha.push(S::Frame);
            alpha.push(S::Clear);
        }
        // partial updates / clears and quick-refresh pairs of this panel
        let all = syms(spec);
        let others: Vec<S> = all
            .iter()
            .enumerate()
            .filter(|(_, s)| s.iter().any(|o| matches!(o.k, K::UpdatePartial | K::ClearPartial | K::PartialOld | K::PartialNew | K::UpdateOld | K::UpdateNew | K::UpdatePartial2 | K::PartialAchromatic | K::PartialChromatic | K::SetPartialBase)) && !s.iter().any(|o| matches!(o.k, K::SetLut | K::SetRefresh | K::Sleep | K::WakeUp)))
            .map(|(i, _)| S::Other(i as u8))
            .collect();
        let maxlen = 4;
        let mut cur: Vec<Vec<S>> = vec![vec![]];
        for _ in 0..maxlen {
            let mut next = Vec::new();
            for c in &cur {
                for a in &alpha {
                    let mut n = c.clone();
                    n.push(*a);
                    next.push(n);
                }
            }
            for n in &next {
                cases.push(Case { spec, seq: n.clone(), atomic: None });
            }
            cur = next;
        }
        // one other symbol inside short sequences: [select; other; reload | sleep+wake | reload, sleep+wake]
        // (a full-frame update and a clear are in the exhaustive alphabet only in the thorough tier; here
        // they take part in both tiers)
        let mut inner = others.clone();
        inner.push(S::Frame);
        inner.push(S::Clear);
        for o in &inner {
            for sel in [S::SelQuick, S::SelFull] {
                for tail in [vec![S::Reload], vec![S::SleepWake], vec![S::SleepWake, S::Reload], vec![S::Display, S::Reload]] {
                    let mut v = vec![sel, *o];
                    v.extend(tail.iter().cloned());
                    cases.push(Case { spec, seq: v, atomic: None });
                    let mut v2 = vec![S::SelQuick, S::SelFull, *o];
                    if sel == S::SelQuick {
                        v2 = vec![S::SelFull, S::SelQuick, *o];
                    }
                    v2.extend(tail.iter().cloned());
                    cases.push(Case { spec, seq: v2, atomic: None });
                }
            }
        }
        // a mode selected between sleep and wake_up is the mode last selected when the panel wakes up
        for a in [None, Some(S::SelFull), Some(S::SelQuick)] {
            for b in [S::SelFull, S::SelQuick] {
                for tail in [vec![], vec![S::Reload], vec![S::Display, S::Reload]] {
                    let mut v: Vec<S> = a.into_iter().collect();
                    let mut at = v.clone();
                    v.extend([S::Sleep, b, S::Wake]);
                    at.extend([b, S::SleepWake]);
                    v.extend(tail.iter().cloned());
                    at.extend(tail.iter().cloned());
                    cases.push(Case { spec, seq: v, atomic: Some(at) });
                }
            }
        }
        // static clause: full and quick tables are distinct where the driver ships both
        let refs = measure(spec);
        pre.eval(spec.name);
        if spec.lut == LutKind::FullQuick {
            if refs.full.is_empty() || refs.quick.is_empty() {
                pre.fail(Failure { panel: spec.name.into(), entry: "set_lut".into(), class: "select-uploads-nothing".into(), tags: vec![], detail: format!("full: {:?} quick: {:?}", short(&refs.full), short(&refs.quick)), case: J::obj().set("panel", spec.name) });
            } else if refs.full == refs.quick {
                pre.fail(Failure { panel: spec.name.into(), entry: "set_lut".into(), class: "tables-not-distinct".into(), tags: vec![], detail: format!("full and quick selections upload identical tables {:?}", short(&refs.full)), case: J::obj().set("panel", spec.name) });
            }
        }
        pre.sample(J::obj().set("panel", spec.name).set("variant", ctx.variant.as_str()).set("reference_full", short(&refs.full)).set("reference_quick", short(&refs.quick)).set("init_uploads_tables", refs.init_uploads));
    }
    let variant = ctx.variant.clone();
    let mut rep = par_run(&cases, ctx.threads, |_, c, rep| {
        let spec = c.spec;
        let refs = measure(spec);
        rep.eval(spec.name);
        let tagseq = |s: &[S]| {
            s.iter()
                .map(|x| match x {
                    S::Other(i) => sym_kinds(&syms(spec), &[*i as usize]),
                    _ => x.tag().to_string(),
                })
                .collect::<Vec<_>>()
                .join(">")
        };
        match eval(spec, &refs, &c.seq, Some(rep)) {
            Err(e) => {
                rep.count("histories_with_failing_op", 1);
                rep.note(&format!("op failed (not judged here): {} {}", spec.name, e));
            }
            Ok(fails) => {
                rep.nontrivial(hash_str(&format!("{}|{}", spec.name, tagseq(&c.seq))));
                if fails.is_empty() && rep.samples.len() < 10 && c.seq.len() >= 3 {
                    rep.sample(J::obj().set("panel", spec.name).set("variant", variant.as_str()).set("sequence", tagseq(&c.seq)));
                }
                let atomic_sigs: Vec<String> = match &c.atomic {
                    Some(at) => eval(spec, &refs, at, None).map(|v| v.iter().map(|(e, cl, tg, _)| format!("{}|{}|{}", e, cl, tg.join(","))).collect()).unwrap_or_default(),
                    None => vec![],
                };
                for (entry, class, tags, detail) in fails {
                    let sig0 = format!("{}|{}|{}", entry, class, tags.join(","));
                    if c.atomic.is_some() {
                        if atomic_sigs.contains(&sig0) {
                            continue; // the sequence with the atomic sleep+wake step shows (and reports) the same
                        }
                        let mut tags = tags;
                        tags.push("selected-while-asleep".into());
                        tags.push(format!("seq:{}", tagseq(&c.seq)));
                        rep.fail(Failure { panel: spec.name.into(), entry, class, tags, detail: format!("{} | seen in: {}", detail, tagseq(&c.seq)), case: J::obj().set("panel", spec.name).set("variant", variant.as_str()).set("sequence", tagseq(&c.seq)) });
                        continue;
                    }
                    // minimise the sequence
                    let mut cur = c.seq.clone();
                    let mut changed = true;
                    while changed {
                        changed = false;
                        for i in 0..cur.len() {
                            let mut t = cur.clone();
                            t.remove(i);
                            let still = eval(spec, &refs, &t, None).map(|v| v.iter().any(|(e, cl, tg, _)| format!("{}|{}|{}", e, cl, tg.join(",")) == sig0)).unwrap_or(false);
                            if still {
                                cur = t;
                                changed = true;
                                break;
                            }
                        }
                    }
                    let mut tags = tags;
                    tags.push(format!("seq:{}", tagseq(&cur)));
                    rep.fail(Failure { panel: spec.name.into(), entry, class, tags, detail: format!("{} | seen in: {}", detail, tagseq(&c.seq)), case: J::obj().set("panel", spec.name).set("variant", variant.as_str()).set("sequence", tagseq(&cur)) });
                }
            }
        }
    });
    rep.merge(pre);
    rep
}
