//! C18 — controller protocol conformance: defined opcodes, complete blocks, geometry.
//! Offline checker over the decoded (command, parameters) stream of every operation.
use crate::json::J;
use crate::model::{CmdRec, Family};
use crate::ops::*;
use crate::panels::*;
use crate::props::common::*;
use crate::prng::hash_str;
use crate::proto::*;
use crate::report::{Failure, Report};
use crate::Ctx;

fn p16le(c: &CmdRec, i: usize) -> u32 {
    c.params.get(i).copied().unwrap_or(0) as u32 | ((c.params.get(i + 1).copied().unwrap_or(0) as u32) << 8)
}
fn p16be(c: &CmdRec, i: usize) -> u32 {
    ((c.params.get(i).copied().unwrap_or(0) as u32) << 8) | c.params.get(i + 1).copied().unwrap_or(0) as u32
}

/// returns (class, tags, detail)
pub fn check_cmds(spec: &Spec, cmds: &[CmdRec], op_kind: Option<K>) -> Vec<(String, Vec<String>, String)> {
    let mut out = Vec::new();
    let is_partial_op = matches!(
        op_kind,
        Some(K::UpdatePartial | K::PartialOld | K::PartialNew | K::ClearPartial | K::PartialAchromatic | K::PartialChromatic | K::DisplayPartial | K::UpdatePartial2)
    );
    let last_ram = cmds.iter().rposition(|c| is_ram_write(spec, c.op));
    for (i, c) in cmds.iter().enumerate() {
        if !opcode_defined(spec, c.op) {
            out.push(("undefined-opcode".to_string(), vec![format!("op={:02X}", c.op)], format!("opcode {:02X} with {} parameters is not defined for the {:?} family nor in the vendor sequence", c.op, c.nparams, spec.family)));
            continue;
        }
        if let Some(ar) = block_arity(spec, c.op) {
            if !ar.contains(&c.nparams) {
                out.push((
                    "block-incomplete".to_string(),
                    vec![format!("op={:02X}", c.op), format!("got={}", c.nparams)],
                    format!("command {:02X} carries {} parameter bytes, datasheet block is {:?}: [{}]", c.op, c.nparams, ar, hex(&c.params)),
                ));
                continue;
            }
        }
        // geometry
        match spec.family {
            Family::Ssd => {
                let body_of_partial = is_partial_op && last_ram.map(|l| i < l).unwrap_or(true);
                match c.op {
                    0x01 => {
                        let mux = p16le(c, 0) & 0x3FF;
                        if mux != spec.h - 1 {
                            out.push(("geometry".into(), vec!["reg=01".into(), format!("value={}", mux)], format!("gate count (0x01) programmed as {} for a panel of {} rows (expected {})", mux, spec.h, spec.h - 1)));
                        }
                    }
                    0x44 if !body_of_partial => {
                        let (xs, xe) = if spec.x_pixel_units { (p16le(c, 0), p16le(c, 2)) } else { (c.params[0] as u32, c.params[1] as u32) };
                        let want_e = if spec.x_pixel_units { spec.w - 1 } else { (spec.w - 1) >> 3 };
                        let (lo, hi) = (xs.min(xe), xs.max(xe));
                        if lo != 0 || hi != want_e {
                            out.push(("geometry".into(), vec!["reg=44".into(), format!("value={}..{}", xs, xe)], format!("full-frame X window programmed as {}..{} (expected 0..{})", xs, xe, want_e)));
                        }
                    }
                    0x45 if !body_of_partial => {
                        let (ys, ye) = (p16le(c, 0), p16le(c, 2));
                        let (lo, hi) = (ys.min(ye), ys.max(ye));
                        if lo != 0 || hi != spec.h - 1 {
                            out.push(("geometry".into(), vec!["reg=45".into(), format!("value={}..{}", ys, ye)], format!("full-frame Y window programmed as {}..{} (expected 0..{})", ys, ye, spec.h - 1)));
                        }
                    }
                    _ => {}
                }
            }
            Family::Uc | Family::Acep => {
                if c.op == 0x61 {
                    let (w, h) = match c.nparams {
                        2 => (c.params[0] as u32, c.params[1] as u32),
                        3 => (c.params[0] as u32, p16be(c, 1)),
                        _ => (p16be(c, 0), p16be(c, 2)),
                    };
                    if w != spec.w || h != spec.h {
                        out.push(("geometry".into(), vec!["reg=61".into(), format!("value={}x{}", w, h)], format!("resolution (0x61) programmed as {}x{} for a {}x{} panel: [{}]", w, h, spec.w, spec.h, hex(&c.params))));
                    }
                }
            }
        }
    }
    out
}

pub fn run(ctx: &Ctx) -> Report {
    let mut rep = Report::new();
    for spec in panels_for(ctx) {
        let syms = syms(spec);
        // every symbol on a fresh driver, and after each settings-changing predecessor (LUT / refresh / bg)
        let mut hist: Vec<Vec<usize>> = histories(spec, &syms, 1);
        if ctx.tier_thorough {
            hist.extend(histories(spec, &syms, 2));
        } else {
            let setters: Vec<usize> = syms.iter().enumerate().filter(|(_, s)| s.iter().any(|o| matches!(o.k, K::SetLut | K::SetRefresh | K::SetBg))).map(|(i, _)| i).collect();
            for h in histories(spec, &syms, 2) {
                if setters.contains(&h[0]) {
                    hist.push(h);
                }
            }
        }
        // constructor stream
        {
            rep.eval(spec.name);
            let rig = Rig::simple(spec);
            let b = rig.board.borrow();
            let cmds = &b.chip().cmds;
            rep.count("commands_decoded", cmds.len() as u64);
            for (class, tags, detail) in check_cmds(spec, cmds, None) {
                rep.fail(Failure { panel: spec.name.into(), entry: "new".into(), class, tags, detail, case: case_json(spec, &ctx.variant, &[]) });
            }
        }
        for h in hist {
            let ops = flatten(&syms, &h);
            // on an idle panel, and on a panel that is busy for three polls after every busy-raising command
            // (what a driver sends may depend on what it reads from the BUSY line)
            let mut idle_sigs: Vec<String> = Vec::new();
            for busy in [false, true] {
                rep.eval(spec.name);
                let mut rig = if !busy {
                    Rig::simple(spec)
                } else {
                    match Rig::new(
                        spec,
                        |b| {
                            b.busy_mode = crate::hal::BusyMode::Physical;
                            b.chips[0].busy.default_d = 3;
                        },
                        None,
                        false,
                    ) {
                        Ok(r) => r,
                        Err(_) => {
                            rep.count("busy_panel_constructor_failed", 1);
                            continue;
                        }
                    }
                };
                let mut opcodes_seen = std::collections::BTreeSet::new();
                for o in &ops {
                    let c0 = rig.board.borrow().chip().cmds.len();
                    let out = rig.apply(o);
                    if !out.is_ok() {
                        if busy {
                            rep.count("busy_panel_operation_not_ok", 1);
                        } else {
                            rep.inconclusive("operation did not return Ok (reported by the property that owns it)");
                        }
                        break;
                    }
                    let b = rig.board.borrow();
                    let cmds = &b.chip().cmds[c0..];
                    rep.count("commands_decoded", cmds.len() as u64);
                    for c in cmds {
                        opcodes_seen.insert(c.op);
                        rep.state(((spec.name.len() as u64) << 32) ^ hash_str(spec.name) ^ ((c.op as u64) << 8 | c.nparams.min(255) as u64));
                    }
                    for (class, mut tags, detail) in check_cmds(spec, cmds, Some(o.k)) {
                        let sig = format!("{}|{}|{}", o.k.name(), class, tags.join(","));
                        if !busy {
                            idle_sigs.push(sig);
                        } else if idle_sigs.contains(&sig) {
                            continue;
                        } else {
                            tags.push("panel-busy".into());
                        }
                        rep.fail(Failure { panel: spec.name.into(), entry: o.k.name().into(), class, tags, detail: format!("{} (history: {}{})", detail, ops_short(&ops), if busy { ", panel busy for three polls after each busy-raising command" } else { "" }), case: case_json(spec, &ctx.variant, &ops).set("busy_polls", if busy { 3 } else { 0 }) });
                    }
                }
                rep.nontrivial(hash_str(&format!("{}|{}|{}", spec.name, ops_short(&ops), busy)));
                if !busy && rep.samples.len() < 8 && h.len() == 2 {
                    rep.sample(case_json(spec, &ctx.variant, &ops).set("opcodes", opcodes_seen.iter().map(|o| format!("{:02X}", o)).collect::<Vec<_>>()));
                }
            }
        }
    }
    // full-frame calls with a buffer of another length than the frame (where the driver accepts it): the
    // geometry the call programs must still describe the panel, whatever it does with the bytes
    for spec in panels_for(ctx) {
        for e in spec.full {
            let full = spec.entry_buf_len(e);
            let row = ((spec.w + 7) / 8) as usize;
            if e.plane2.is_some() && e.buf != BufSel::Whole {
                continue;
            }
            for len in [full / 2, 3 * full / 5, full.saturating_sub(row), full + row, row] {
                if len == 0 || len == full {
                    continue;
                }
                rep.eval(spec.name);
                let mut rig = Rig::simple(spec);
                let mut ops: Vec<Op> = Vec::new();
                if let Some(k) = e.after {
                    ops.push(frame_op(spec, k, 77));
                }
                if ops.iter().any(|o| !rig.apply(o).is_ok()) {
                    continue;
                }
                let op = Op::img(e.k, Img::Coded { salt: 0xC18 + len as u32, len });
                let c0 = rig.board.borrow().chip().cmds.len();
                let out = rig.apply(&op);
                if !out.is_ok() {
                    rep.count("other_lengths_rejected_by_driver", 1);
                    continue;
                }
                ops.push(op);
                let b = rig.board.borrow();
                let cmds = &b.chip().cmds[c0..];
                rep.count("commands_decoded", cmds.len() as u64);
                rep.nontrivial(hash_str(&format!("{}|len|{}|{}", spec.name, e.k.name(), len)));
                for (class, mut tags, detail) in check_cmds(spec, cmds, Some(e.k)) {
                    tags.push("other-length".into());
                    rep.fail(Failure { panel: spec.name.into(), entry: e.k.name().into(), class, tags, detail: format!("{} (buffer of {} bytes, the frame is {})", detail, len, full), case: case_json(spec, &ctx.variant, &ops).set("buffer_len", len) });
                }
            }
        }
    }
    // partial calls with windows whose width is not a multiple of 8 (narrower than one byte included), with the
    // floor-sized buffer the drivers document: whatever a driver does with such a window, every command it sends
    // must be defined and every block complete (where the window lands is C06's matter and not judged here)
    for spec in panels_for(ctx) {
        for pe in spec.partial {
            if pe.two_planes {
                continue;
            }
            for w in [Win::new(8, 8, 4, 4), Win::new(8, 8, 12, 4), Win::new(0, 0, 20, 3), Win::new(16, 2, 7, 1)] {
                rep.eval(spec.name);
                let mut rig = Rig::simple(spec);
                let mut ops: Vec<Op> = Vec::new();
                if let Some(k) = pe.after {
                    ops.push(Op::win(k, w, Img::Coded { salt: 0x18A, len: w.bytes() }));
                }
                if ops.iter().any(|o| !rig.apply(o).is_ok()) {
                    rep.count("unaligned_windows_not_accepted", 1);
                    continue;
                }
                let op = Op::win(pe.k, w, if pe.is_fill { Img::None } else { Img::Coded { salt: 0x18B, len: w.bytes() } });
                let c0 = rig.board.borrow().chip().cmds.len();
                if !rig.apply(&op).is_ok() {
                    rep.count("unaligned_windows_not_accepted", 1);
                    continue;
                }
                ops.push(op);
                let b = rig.board.borrow();
                let cmds = &b.chip().cmds[c0..];
                rep.count("commands_decoded", cmds.len() as u64);
                rep.count("unaligned_window_calls_checked", 1);
                rep.nontrivial(hash_str(&format!("{}|unaligned|{}|{:?}", spec.name, pe.k.name(), (w.x, w.y, w.w, w.h))));
                for (class, mut tags, detail) in check_cmds(spec, cmds, Some(pe.k)) {
                    if class == "geometry" {
                        continue;
                    }
                    tags.push("unaligned-width".into());
                    rep.fail(Failure { panel: spec.name.into(), entry: pe.k.name().into(), class, tags, detail: format!("{} (window {},{} {}x{})", detail, w.x, w.y, w.w, w.h), case: case_json(spec, &ctx.variant, &ops) });
                }
            }
        }
    }
    if ctx.variant == "v3" && ctx.only_panel.as_deref().map(|p| p == "epd12in48b_v2").unwrap_or(true) {
        crate::props::p12checks::c18(&mut rep);
    }
    rep
}
