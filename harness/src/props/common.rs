//! Shared workload generation: per-panel operation alphabets (symbols = protocol-respecting
//! op groups), canonical windows and images, history enumeration.
use crate::json::J;
use crate::ops::*;
use crate::panels::*;
use crate::prng::Rng;

pub type Sym = Vec<Op>;

pub fn frame_len(spec: &Spec, k: K) -> usize {
    match spec.full_entry(k) {
        Some(e) => spec.entry_buf_len(e),
        None => spec.plane_bytes(),
    }
}

pub fn frame_img(spec: &Spec, k: K, salt: u32) -> Img {
    Img::Coded { salt, len: frame_len(spec, k) }
}

pub fn frame_op(spec: &Spec, k: K, salt: u32) -> Op {
    match k {
        K::UpdateColor => Op::img2(k, Img::Coded { salt, len: spec.plane_bytes() }, Img::Coded { salt: salt ^ 0x5555, len: spec.plane_bytes() }),
        _ => Op::img(k, frame_img(spec, k, salt)),
    }
}

/// aligned width usable for partial windows
pub fn w8(spec: &Spec) -> u32 {
    spec.w & !7
}

pub fn canonical_windows(spec: &Spec) -> Vec<Win> {
    let w = w8(spec);
    let h = spec.h;
    vec![
        Win::new(0, 0, 16, 8),
        Win::new(w - 16, h - 8, 16, 8),
        Win::new(8, 3, 8, 1),
        Win::new(0, 0, w, h),
        Win::new(16, 5, 24, 7),
    ]
}

/// buffer length a partial entry point takes for window `w`
pub fn partial_len(pe: &PartialEntry, w: &Win) -> usize {
    if pe.two_planes {
        w.bytes() * 2
    } else {
        w.bytes()
    }
}

pub fn partial_op(spec: &Spec, k: K, win: Win, salt: u32) -> Op {
    let pe = spec.partial.iter().find(|p| p.k == k);
    let len = pe.map(|p| partial_len(p, &win)).unwrap_or(win.bytes());
    if k == K::ClearPartial || k == K::DisplayPartial {
        Op::win(k, win, Img::None)
    } else {
        Op::win(k, win, Img::Coded { salt, len })
    }
}

/// The per-panel alphabet of protocol-respecting symbols used by the history-driven monitors.
pub fn syms(spec: &Spec) -> Vec<Sym> {
    let mut v: Vec<Sym> = Vec::new();
    let wins = canonical_windows(spec);
    v.push(vec![Op::new(K::WakeUp)]);
    v.push(vec![Op::new(K::Sleep), Op::new(K::WakeUp)]);
    v.push(vec![frame_op(spec, K::UpdateFrame, 11)]);
    v.push(vec![frame_op(spec, K::UpdateAndDisplay, 12)]);
    v.push(vec![Op::new(K::Display)]);
    v.push(vec![Op::new(K::Clear)]);
    v.push(vec![Op::new(K::WaitIdle)]);
    match spec.color {
        ColorKind::Bw => v.push(vec![Op::arg(K::SetBg, 0)]),
        ColorKind::Tri => {
            v.push(vec![Op::arg(K::SetBg, 0)]);
            v.push(vec![Op::arg(K::SetBg, 2)]);
        }
        ColorKind::Oct => {
            v.push(vec![Op::arg(K::SetBg, 0)]);
            v.push(vec![Op::arg(K::SetBg, 4)]);
        }
    }
    if spec.has(K::SetLut) {
        v.push(vec![Op::arg(K::SetLut, 0)]);
        v.push(vec![Op::arg(K::SetLut, 1)]);
        v.push(vec![Op::arg(K::SetLut, 2)]);
    }
    if spec.has(K::UpdatePartial) {
        if spec.name == "epd2in9b_v4" {
            // documented protocol: base image, then partial update, then partial display
            v.push(vec![
                Op::img2(K::UpdateAndDisplayBase, frame_img(spec, K::UpdateFrame, 31), Img::None),
                partial_op(spec, K::UpdatePartial, wins[0], 32),
                Op::new(K::DisplayPartial),
            ]);
            v.push(vec![
                Op::img2(K::UpdateAndDisplayBase, frame_img(spec, K::UpdateFrame, 33), Img::Coded { salt: 34, len: spec.plane_bytes() }),
                partial_op(spec, K::UpdatePartial, wins[1], 35),
                Op::new(K::DisplayPartial),
            ]);
        }
        for (i, w) in wins.iter().enumerate().take(4) {
            v.push(vec![partial_op(spec, K::UpdatePartial, *w, 20 + i as u32)]);
        }
    }
    if spec.has(K::UpdateOld) {
        v.push(vec![frame_op(spec, K::UpdateOld, 41), frame_op(spec, K::UpdateNew, 42)]);
        if spec.has(K::DisplayNew) {
            v.push(vec![frame_op(spec, K::UpdateOld, 43), frame_op(spec, K::UpdateNew, 44), Op::new(K::DisplayNew)]);
        }
        if spec.has(K::UpdateAndDisplayNew) {
            v.push(vec![frame_op(spec, K::UpdateOld, 45), frame_op(spec, K::UpdateAndDisplayNew, 46)]);
        }
    }
    if spec.has(K::PartialOld) {
        v.push(vec![partial_op(spec, K::PartialOld, wins[0], 51), partial_op(spec, K::PartialNew, wins[0], 52)]);
        v.push(vec![partial_op(spec, K::PartialOld, wins[1], 53), partial_op(spec, K::PartialNew, wins[1], 54)]);
    }
    if spec.has(K::ClearPartial) {
        v.push(vec![partial_op(spec, K::ClearPartial, wins[0], 0)]);
        v.push(vec![partial_op(spec, K::ClearPartial, wins[4], 0)]);
    }
    if spec.has(K::UpdateColor) {
        v.push(vec![frame_op(spec, K::UpdateColor, 61)]);
        v.push(vec![frame_op(spec, K::Achromatic, 62), frame_op(spec, K::Chromatic, 63)]);
    }
    if spec.has(K::SetRefresh) {
        v.push(vec![Op::arg(K::SetRefresh, 2)]);
        v.push(vec![Op::arg(K::SetRefresh, 1)]);
    }
    if spec.has(K::SetPartialBase) {
        v.push(vec![frame_op(spec, K::SetPartialBase, 71)]);
    }
    if spec.has(K::SetBorder) {
        v.push(vec![Op::arg(K::SetBorder, 0)]);
        v.push(vec![Op::arg(K::SetBorder, 2)]);
    }
    if spec.has(K::PartialAchromatic) {
        v.push(vec![partial_op(spec, K::PartialAchromatic, wins[0], 81)]);
        v.push(vec![partial_op(spec, K::PartialChromatic, wins[1], 82)]);
        v.push(vec![partial_op(spec, K::DisplayPartial, wins[0], 0)]);
    }
    if spec.has(K::UpdatePartial2) {
        v.push(vec![partial_op(spec, K::UpdatePartial2, wins[0], 91)]);
        v.push(vec![partial_op(spec, K::UpdatePartial2, wins[1], 92)]);
    }
    if spec.has(K::Show7Block) {
        v.push(vec![Op::new(K::Show7Block)]);
    }
    v
}

/// The alphabet plus partial operations on windows of the two remaining shape classes - a band of full
/// panel width and a strip of full panel height (a window test such as `w != WIDTH && h != HEIGHT` treats
/// them differently from interior windows). Used by the monitors that are about what a partial operation
/// leaves behind (C01, C02, C07); kept out of the common alphabet to keep the exhaustive enumerations small.
pub fn syms_shapes(spec: &Spec) -> Vec<Sym> {
    let mut v = syms(spec);
    let w = w8(spec);
    let h = spec.h;
    let band = Win::new(0, (h / 3) & !7, w, 8.min(h));
    let strip = Win::new(8.min(w - 8), 0, 8, h);
    // (Full-frame writers handed a partial-frame buffer were tried as history symbols and dropped: the unchanged
    // 2in13b_v4 relies on whole-frame writes wrapping the address counter, so such a call shifts every later frame
    // there too - buffers of undocumented length are not protocol-respecting history elements.)
    for (i, win) in [band, strip].into_iter().enumerate() {
        let i = i as u32;
        if spec.has(K::UpdatePartial) && spec.name != "epd2in9b_v4" {
            v.push(vec![partial_op(spec, K::UpdatePartial, win, 120 + i)]);
        }
        if spec.has(K::PartialOld) {
            v.push(vec![partial_op(spec, K::PartialOld, win, 130 + i), partial_op(spec, K::PartialNew, win, 140 + i)]);
        }
        if spec.has(K::ClearPartial) {
            v.push(vec![partial_op(spec, K::ClearPartial, win, 0)]);
        }
        if spec.has(K::PartialAchromatic) {
            v.push(vec![partial_op(spec, K::PartialAchromatic, win, 150 + i)]);
            v.push(vec![partial_op(spec, K::PartialChromatic, win, 160 + i)]);
        }
        if spec.has(K::UpdatePartial2) {
            v.push(vec![partial_op(spec, K::UpdatePartial2, win, 170 + i)]);
        }
    }
    v
}

/// Is this symbol legal in the driver's current logical state? (protocol grammar)
/// Tracks only what the documentation makes a precondition.
#[derive(Clone, Debug, Default)]
pub struct Grammar {
    /// 2in13_v2: current refresh mode is quick
    pub quick_mode: bool,
}
impl Grammar {
    pub fn allows(&self, spec: &Spec, sym: &Sym) -> bool {
        if spec.name == "epd2in13_v2" && self.quick_mode {
            // update_partial_frame asserts Full mode (documented precondition)
            if sym.iter().any(|o| o.k == K::UpdatePartial) {
                return false;
            }
        }
        true
    }
    pub fn step(&mut self, spec: &Spec, sym: &Sym) {
        if spec.name == "epd2in13_v2" {
            for o in sym {
                if o.k == K::SetRefresh {
                    self.quick_mode = o.arg == 2;
                }
            }
        }
    }
}

/// all grammar-respecting sequences of symbols of length exactly `n` (indices into `syms`)
pub fn histories(spec: &Spec, syms: &[Sym], n: usize) -> Vec<Vec<usize>> {
    let mut out = Vec::new();
    fn rec(spec: &Spec, syms: &[Sym], n: usize, cur: &mut Vec<usize>, g: Grammar, out: &mut Vec<Vec<usize>>) {
        if cur.len() == n {
            out.push(cur.clone());
            return;
        }
        for (i, s) in syms.iter().enumerate() {
            if !g.allows(spec, s) {
                continue;
            }
            let mut g2 = g.clone();
            g2.step(spec, s);
            cur.push(i);
            rec(spec, syms, n, cur, g2, out);
            cur.pop();
        }
    }
    rec(spec, syms, n, &mut Vec::new(), Grammar::default(), &mut out);
    out
}

pub fn random_history(spec: &Spec, syms: &[Sym], n: usize, rng: &mut Rng) -> Vec<usize> {
    let mut g = Grammar::default();
    let mut v = Vec::new();
    while v.len() < n {
        let i = rng.below(syms.len() as u64) as usize;
        if !g.allows(spec, &syms[i]) {
            continue;
        }
        g.step(spec, &syms[i]);
        v.push(i);
    }
    v
}

pub fn flatten(syms: &[Sym], h: &[usize]) -> Vec<Op> {
    h.iter().flat_map(|i| syms[*i].iter().cloned()).collect()
}

pub fn case_json(spec: &Spec, variant: &str, ops: &[Op]) -> J {
    J::obj().set("panel", spec.name).set("variant", variant).set("history", ops_json(ops))
}

pub fn panels_for(ctx: &crate::Ctx) -> Vec<&'static Spec> {
    SPECS
        .iter()
        .filter(|s| match &ctx.only_panel {
            Some(p) => p == s.name,
            None => true,
        })
        // the v2 build only differs for the 2.13in v2/v3 driver; alt LUT only for type A
        .filter(|s| {
            if ctx.variant == "v3" {
                true
            } else if ctx.variant.starts_with("v2") && !ctx.variant.contains("altlut") {
                s.name == "epd2in13_v2"
            } else {
                s.name == "epd1in54" || s.name == "epd2in9"
            }
        })
        .collect()
}

// ---------------------------------------------------------------------------------------------
// log helpers
// ---------------------------------------------------------------------------------------------
use crate::hal::{Ev, Pin};

/// (op index, first event index, one-past-last event index) for every OpBegin..OpEnd bracket
pub fn op_segments(log: &[Ev]) -> Vec<(u32, usize, usize)> {
    let mut out = Vec::new();
    let mut start: Option<(u32, usize)> = None;
    for (i, e) in log.iter().enumerate() {
        match e {
            Ev::OpBegin { idx } => start = Some((*idx, i + 1)),
            Ev::OpEnd { idx } => {
                if let Some((s, b)) = start.take() {
                    if s == *idx {
                        out.push((s, b, i));
                    }
                }
            }
            _ => {}
        }
    }
    out
}

pub fn hex(b: &[u8]) -> String {
    b.iter().map(|x| format!("{:02X}", x)).collect::<Vec<_>>().join(" ")
}

/// Minimise a failing history (list of symbol indices): greedily drop symbols while `fails`
/// still returns the same signature. Used so that a failure signature names the smallest set of
/// operations needed to provoke it rather than the arbitrary history in which it was first seen.
pub fn minimize_history(h: &[usize], sig: &str, fails: &dyn Fn(&[usize]) -> Option<String>) -> Vec<usize> {
    let mut cur = h.to_vec();
    let mut changed = true;
    while changed && cur.len() > 0 {
        changed = false;
        for i in 0..cur.len() {
            let mut t = cur.clone();
            t.remove(i);
            if let Some(s) = fails(&t) {
                if s == sig {
                    cur = t;
                    changed = true;
                    break;
                }
            }
        }
    }
    cur
}

pub fn sym_kinds(syms: &[Sym], h: &[usize]) -> String {
    h.iter()
        .map(|i| syms[*i].iter().map(|o| sym_tag(o)).collect::<Vec<_>>().join("+"))
        .collect::<Vec<_>>()
        .join(">")
}

/// coarse, stable tag of an op for signatures: kind + argument class
pub fn sym_tag(o: &Op) -> String {
    match o.k {
        K::SetBg | K::SetLut | K::SetRefresh | K::SetBorder => format!("{}[{}]", o.k.name(), o.arg),
        _ => o.k.name().to_string(),
    }
}


/// Apply the operations of one symbol with the k-th SPI write (counted from the start of the symbol)
/// failing. Returns Some(short name of the call that returned the error) when a call failed with the
/// injected error, None when the fault index lies beyond the symbol or the call panicked.
pub fn apply_symbol_with_fault(rig: &mut Rig, sym: &[Op], k: u64, id: u32) -> Option<String> {
    rig.board.borrow_mut().arm_fault(k, id);
    let mut failed = None;
    for o in sym {
        let out = rig.apply(o);
        if !out.is_ok() {
            if matches!(out, Outcome::Err(_)) && !rig.poisoned {
                failed = Some(o.short());
            }
            break;
        }
    }
    rig.board.borrow_mut().disarm_fault();
    failed
}

/// number of SPI writes the symbol makes when nothing fails, in the state `rig` is in (dry run on a clone is not
/// possible, so the caller passes a rig prepared the same way); 0 when an operation fails
pub fn symbol_transfers(rig: &mut Rig, sym: &[Op]) -> u64 {
    let w0 = rig.board.borrow().spi_writes;
    for o in sym {
        if !rig.apply(o).is_ok() {
            return 0;
        }
    }
    rig.board.borrow().spi_writes - w0
}

/// fault indices worth trying inside a symbol of `n` transfers: the first few (commands and parameters),
/// points inside the bulk data and the last ones
pub fn fault_points(n: u64, dense_head: u64) -> Vec<u64> {
    let mut ks: Vec<u64> = (0..n.min(dense_head)).collect();
    for k in [n / 5, n / 3, n / 2, (2 * n) / 3, n.saturating_sub(3), n.saturating_sub(2), n.saturating_sub(1)] {
        if k < n && !ks.contains(&k) {
            ks.push(k);
        }
    }
    ks
}
