//! Property monitors.
use crate::report::Report;
use crate::Ctx;

pub mod c01;
pub mod c02;
#[cfg(feature = "pure")]
pub mod c03;
pub mod c04;
pub mod c05;
pub mod c06;
pub mod c07;
pub mod c08;
pub mod c09;
pub mod c10;
pub mod c11;
pub mod c12;
#[cfg(feature = "pure")]
pub mod c13;
#[cfg(feature = "pure")]
pub mod c14;
pub mod c15;
#[cfg(feature = "pure")]
pub mod c16;
pub mod c17;
pub mod c18;
pub mod common;
pub mod p12checks;
pub mod smoke;

pub fn run(ctx: &Ctx) -> Option<Report> {
    Some(match ctx.prop.as_str() {
        "smoke" => smoke::run(ctx),
        "C01" => c01::run(ctx),
        "C02" => c02::run(ctx),
        #[cfg(feature = "pure")]
        "C03" => c03::run(ctx),
        "C04" => c04::run(ctx),
        "C05" => c05::run(ctx),
        "C06" => c06::run(ctx),
        "C07" => c07::run(ctx),
        "C08" => c08::run(ctx),
        "C09" => c09::run(ctx),
        "C10" => c10::run(ctx),
        "C11" => c11::run(ctx),
        "C12" => c12::run(ctx),
        #[cfg(feature = "pure")]
        "C13" => c13::run(ctx),
        #[cfg(feature = "pure")]
        "C14" => c14::run(ctx),
        "C15" => c15::run(ctx),
        #[cfg(feature = "pure")]
        "C16" => c16::run(ctx),
        "C17" => c17::run(ctx),
        "C18" => c18::run(ctx),
        _ => return None,
    })
}
