//! Property monitors.
use crate::report::Report;
use crate::Ctx;

pub mod c01;
pub mod c03;
pub mod c10;
pub mod c11;
pub mod c13;
pub mod c14;
pub mod c16;
pub mod c18;
pub mod common;
pub mod smoke;

pub fn run(ctx: &Ctx) -> Option<Report> {
    Some(match ctx.prop.as_str() {
        "smoke" => smoke::run(ctx),
        "C01" => c01::run(ctx),
        "C03" => c03::run(ctx),
        "C10" => c10::run(ctx),
        "C11" => c11::run(ctx),
        "C13" => c13::run(ctx),
        "C14" => c14::run(ctx),
        "C16" => c16::run(ctx),
        "C18" => c18::run(ctx),
        _ => return None,
    })
}
