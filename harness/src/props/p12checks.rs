//! Rows of the 12.48in driver in the history / log based properties (C04, C05, C09, C11, C18).
use crate::hal::{BusyMode, Ev, Pin};
use crate::json::J;
use crate::model::{bit_get, Family, Power};
use crate::p12::*;
use crate::panels::Outcome;
use crate::prng::{hash_str, Rng};
use crate::report::{Failure, Report};

const P: &str = "epd12in48b_v2";

fn fail(rep: &mut Report, entry: &str, class: &str, tags: Vec<String>, detail: String, case: J) {
    rep.fail(Failure { panel: P.into(), entry: entry.into(), class: class.into(), tags, detail, case });
}

fn small_rows(rows: usize) -> Vec<u8> {
    (0..(W as usize / 8) * rows).map(|i| (i * 31 + 7) as u8).collect()
}

/// the public operations with canonical arguments
pub fn ops12() -> Vec<Op12> {
    vec![
        Op12::Init(0),
        Op12::Init(21),
        Op12::SetMode(10),
        Op12::Write1(small_rows(2)),
        Op12::Write2(small_rows(1)),
        Op12::Write1Partial((640, 488, 16, 8), vec![0xA5; 16]),
        Op12::Write2Partial((8, 8, 64, 4), vec![0x5A; 32]),
        Op12::SetLut(0x20, vec![1; 20]),
        Op12::SetLut(0x25, vec![2; 42]),
        Op12::Refresh,
        Op12::RefreshPartial((640, 480, 32, 32)),
        Op12::PowerOff,
        Op12::Hibernate,
        Op12::GetStatus,
    ]
}

// ------------------------------------------------------------------------------------------ C11
pub fn c11(rep: &mut Report) {
    for prefix in [vec![], vec![Op12::Reset, Op12::Init(0), Op12::Refresh], vec![Op12::Reset, Op12::Init(0), Op12::Hibernate]] {
        rep.eval(P);
        let mut rig = Rig12::new(|_| {});
        for o in &prefix {
            let _ = rig.apply(o);
        }
        let o = rig.apply(&Op12::Reset);
        let case = J::obj().set("panel", P).set("history", prefix.iter().map(|o| o.to_json()).collect::<Vec<_>>()).set("entry", "reset");
        rep.nontrivial(hash_str(&format!("12c11|{}", prefix.len())));
        if !o.is_ok() {
            fail(rep, "reset", "panic", vec![], o.short(), case);
            continue;
        }
        // the first SPI byte comes with the next call (init): judge reset + init together
        let o2 = rig.apply(&Op12::Init(0));
        if !o2.is_ok() {
            fail(rep, "init", "panic", vec![], o2.short(), case);
            continue;
        }
        let b = rig.board.borrow();
        let segs = crate::props::common::op_segments(&b.log);
        let n = segs.len();
        let (_, s, _) = segs[n - 2];
        let (_, _, e) = segs[n - 1];
        let seg = &b.log[s..e];
        for (rst, name, cs) in [(Pin::RstM1S1, "m1s1", [Pin::CsM1, Pin::CsS1]), (Pin::RstM2S2, "m2s2", [Pin::CsM2, Pin::CsS2])] {
            let probs = crate::props::c11::check_segment_pin(seg, true, rst, &|lv| cs.iter().any(|c| lv & c.bit() == 0));
            rep.count("rst_edges", seg.iter().filter(|e| matches!(e, Ev::PinSet { pin, .. } if *pin == rst)).count() as u64);
            rep.count("pulses", 1);
            for (class, detail) in probs {
                fail(rep, "reset", class, vec![format!("line={}", name)], detail, case.clone());
            }
        }
        rep.count("events_examined", seg.len() as u64);
    }
}

// ------------------------------------------------------------------------------------------ C18
pub fn c18(rep: &mut Report) {
    let mut seqs: Vec<Vec<Op12>> = ops12().into_iter().map(|o| vec![o]).collect();
    seqs.push(vec![Op12::BeginRefresh, Op12::PollUntilIdle]);
    seqs.push(vec![Op12::BeginRefreshPartial((0, 0, 64, 64)), Op12::PollUntilIdle]);
    for seq in seqs {
        rep.eval(P);
        let mut rig = Rig12::new(|_| {});
        let mut all = vec![Op12::Reset, Op12::Init(0)];
        all.extend(seq.iter().cloned());
        let case = J::obj().set("panel", P).set("history", all.iter().map(|o| o.to_json()).collect::<Vec<_>>());
        for o in &all {
            let out = rig.apply(o);
            if !out.is_ok() {
                rep.count("ops_failing_for_other_reasons", 1);
                break;
            }
            let b = rig.board.borrow();
            for (ci, chip) in b.chips.iter().enumerate() {
                for c in chip.cmds.iter().filter(|c| c.opidx == chip.opidx) {
                    rep.count("commands_decoded", 1);
                    let defined = crate::proto::family_opcodes(Family::Uc).contains(&c.op);
                    if !defined {
                        fail(rep, o.name(), "undefined-opcode", vec![format!("op={:02X}", c.op)], format!("chip {} received opcode {:02X} with {} parameters", CHIP_NAMES[ci], c.op, c.nparams), case.clone());
                        continue;
                    }
                    let ar: Option<&[u32]> = match c.op {
                        0x61 => Some(&[4]),
                        0x90 => Some(&[9]),
                        0x07 => Some(&[1]),
                        _ => None,
                    };
                    if let Some(ar) = ar {
                        if !ar.contains(&c.nparams) {
                            fail(rep, o.name(), "block-incomplete", vec![format!("op={:02X}", c.op), format!("got={}", c.nparams)], format!("chip {}: command {:02X} carries {} parameter bytes", CHIP_NAMES[ci], c.op, c.nparams), case.clone());
                        }
                    }
                    if c.op == 0x61 && c.nparams == 4 {
                        let w = ((c.params[0] as u32) << 8) | c.params[1] as u32;
                        let h = ((c.params[2] as u32) << 8) | c.params[3] as u32;
                        let r = CHIP_RECTS[ci];
                        if w != r.2 || h != r.3 {
                            fail(rep, o.name(), "geometry", vec!["reg=61".into(), format!("chip={}", CHIP_NAMES[ci]), format!("value={}x{}", w, h)], format!("chip {} resolution programmed as {}x{}, sub-display is {}x{}", CHIP_NAMES[ci], w, h, r.2, r.3), case.clone());
                        }
                    }
                }
            }
        }
        rep.nontrivial(hash_str(&format!("12c18|{}", case.to_string())));
    }
}

// ------------------------------------------------------------------------------------------ C09
pub fn c09(rep: &mut Report, thorough: bool) {
    let alpha: Vec<Vec<Op12>> = vec![
        vec![Op12::Refresh],
        vec![Op12::BeginRefresh, Op12::PollUntilIdle],
        vec![Op12::RefreshPartial((8, 8, 64, 64))],
        vec![Op12::PowerOff],
        vec![Op12::Hibernate, Op12::Reset, Op12::Init(0)],
        vec![Op12::Reset, Op12::Init(0)],
        vec![Op12::Write1(small_rows(1))],
        vec![Op12::SetMode(3)],
    ];
    let maxlen = if thorough { 4 } else { 3 };
    let mut seqs: Vec<Vec<usize>> = vec![vec![]];
    let mut all: Vec<Vec<usize>> = Vec::new();
    for _ in 0..maxlen {
        let mut nx = Vec::new();
        for s in &seqs {
            for a in 0..alpha.len() {
                let mut t = s.clone();
                t.push(a);
                nx.push(t);
            }
        }
        all.extend(nx.iter().cloned());
        seqs = nx;
    }
    // every history on always-idle sub-displays, the shorter ones also on sub-displays that are busy after
    // every busy-raising command, ignore what they receive meanwhile, and one of which is slower than the others
    let mut runs: Vec<(Vec<usize>, Option<usize>)> = Vec::new();
    for h in all {
        // (not the histories with a hardware reset: right after the pulse the model signals busy and the unchanged
        // driver - like the vendor code - starts initialising without a wait, so the command-ignoring model is too
        // hostile there)
        if h.len() <= if thorough { 3 } else { 2 } && !h.iter().any(|i| alpha[*i].iter().any(|o| matches!(o, Op12::Reset))) {
            for slow in 0..4 {
                runs.push((h.clone(), Some(slow)));
            }
        }
        runs.push((h, None));
    }
    for (h, slow) in runs {
        rep.eval(P);
        let mut rig = match slow {
            None => Rig12::ready(),
            Some(slow) => {
                let mut rig = Rig12::new(|b| b.busy_mode = BusyMode::Physical);
                let _ = rig.apply(&Op12::Reset);
                let _ = rig.apply(&Op12::Init(0));
                {
                    let mut b = rig.board.borrow_mut();
                    for (ci, c) in b.chips.iter_mut().enumerate() {
                        c.busy.default_d = if ci == slow { 4 } else { 1 };
                        c.drop_while_busy = true;
                    }
                }
                rig
            }
        };
        let ops: Vec<Op12> = h.iter().flat_map(|i| alpha[*i].iter().cloned()).collect();
        let mut case = J::obj().set("panel", P).set("history", ops.iter().map(|o| o.to_json()).collect::<Vec<_>>());
        if let Some(slow) = slow {
            case = case.set("slow_chip", slow).set("busy_polls", vec![1, 4]);
        }
        let mut nref = [0usize; 4];
        let mut nasleep = [0usize; 4];
        let mut any = false;
        for o in &ops {
            let out = rig.apply(o);
            if !out.is_ok() {
                rep.count("ops_failing_for_other_reasons", 1);
                break;
            }
            let b = rig.board.borrow();
            for (ci, chip) in b.chips.iter().enumerate() {
                for r in &chip.refreshes[nref[ci]..] {
                    any = true;
                    rep.count("refresh_triggers_judged", 1);
                    if r.asleep {
                        fail(rep, o.name(), "refresh-asleep", vec![format!("chip={}", CHIP_NAMES[ci])], "refresh trigger sent to a sub-display in deep sleep".into(), case.clone());
                    } else {
                        let missing: Vec<u8> = [0x06u8, 0x61, 0x00, 0x50].iter().copied().filter(|op| !bit_get(&r.written, *op)).collect();
                        if !missing.is_empty() {
                            fail(rep, o.name(), "refresh-uninitialised", vec![format!("missing={}", missing.iter().map(|m| format!("{:02X}", m)).collect::<Vec<_>>().join("+"))], format!("chip {} refreshed without init since the last reset", CHIP_NAMES[ci]), case.clone());
                        }
                        if r.power != Power::On {
                            fail(rep, o.name(), "refresh-unpowered", vec![format!("power={:?}", r.power)], format!("chip {} refreshed while {:?}", CHIP_NAMES[ci], r.power), case.clone());
                        }
                    }
                }
                nref[ci] = chip.refreshes.len();
                if chip.triggers_while_asleep.len() > nasleep[ci] {
                    any = true;
                    fail(rep, o.name(), "refresh-asleep", vec![format!("chip={}", CHIP_NAMES[ci])], "refresh trigger sent to a sub-display in deep sleep".into(), case.clone());
                }
                nasleep[ci] = chip.triggers_while_asleep.len();
            }
        }
        if any {
            rep.nontrivial(hash_str(&format!("12c09|{:?}|{:?}", h, slow)));
        }
        if slow.is_some() {
            rep.count("histories_on_skewed_busy_sub_displays", 1);
        }
    }
}

// ------------------------------------------------------------------------------------------ C04
pub fn c04(rep: &mut Report, thorough: bool, seed: u64) {
    let mut rng = Rng::derive(seed, 0x1204);
    for op in ops12() {
        for ctx in 0..2 {
            // fault-free transfer count
            let prefix: Vec<Op12> = if ctx == 0 { vec![] } else { vec![Op12::Write1Partial((8, 8, 64, 4), vec![1; 32]), Op12::SetMode(5)] };
            let mut dry = Rig12::ready();
            for p in &prefix {
                let _ = dry.apply(p);
            }
            let n0 = dry.board.borrow().spi_writes;
            if !dry.apply(&op).is_ok() {
                continue;
            }
            let n = (dry.board.borrow().spi_writes - n0) as usize;
            if n == 0 {
                continue;
            }
            let reference = recovery12(&mut dry);
            let mut pts: Vec<usize> = if n <= 64 || thorough { (0..n).collect() } else { vec![0, 1, 2, n / 2, n - 2, n - 1] };
            if n > 64 && !thorough {
                for _ in 0..4 {
                    pts.push(rng.below(n as u64) as usize);
                }
            }
            pts.sort();
            pts.dedup();
            if thorough && n > 400 {
                let all = pts.clone();
                pts = all.into_iter().filter(|k| *k < 40 || *k + 40 >= n || k % 17 == 0).collect();
            }
            for k in pts {
                rep.eval(P);
                let id = 0x7000 + k as u32 % 4000;
                let mut rig = Rig12::ready();
                for p in &prefix {
                    let _ = rig.apply(p);
                }
                rig.board.borrow_mut().arm_fault(k as u64, id);
                let out = rig.apply(&op);
                let (fired, after) = {
                    let b = rig.board.borrow();
                    (b.fault_fired, b.traffic_after_fault)
                };
                rig.board.borrow_mut().disarm_fault();
                if !fired {
                    continue;
                }
                rep.count("faults_fired", 1);
                rep.nontrivial(hash_str(&format!("12c04|{}|{}|{}", op.to_json().to_string(), ctx, k)));
                let case = J::obj().set("panel", P).set("op", op.to_json()).set("fault_index", k).set("of", n).set("context", ctx);
                let tags = vec![format!("kind={}", if n > 64 { "bulk" } else { "short" })];
                match &out {
                    Outcome::Err(e) if *e == id => {}
                    Outcome::Err(e) => fail(rep, op.name(), "error-replaced", tags.clone(), format!("fault at write {} of {}: returned error {} instead of {}", k, n, e, id), case.clone()),
                    Outcome::Ok => fail(rep, op.name(), "error-swallowed", tags.clone(), format!("fault at write {} of {}: call returned Ok", k, n), case.clone()),
                    other => fail(rep, op.name(), "panic", tags.clone(), format!("fault at write {} of {}: {}", k, n, other.short()), case.clone()),
                }
                if after > 0 {
                    fail(rep, op.name(), "traffic-after-failure", tags.clone(), format!("fault at write {} of {}: {} bus writes after the failing one", k, n, after), case.clone());
                }
                let rec = recovery12(&mut rig);
                rep.count("recoveries_compared", 1);
                if rec != reference {
                    fail(rep, op.name(), "recovery-plane-differs", tags.clone(), format!("fault at write {} of {}: after reset; init; write_data1; refresh_display the sub-displays differ from the fault-free history", k, n), case.clone());
                }
            }
        }
    }
}

fn recovery12(rig: &mut Rig12) -> Vec<(u64, usize, bool)> {
    let _ = rig.apply(&Op12::Reset);
    let _ = rig.apply(&Op12::Init(0));
    for c in rig.board.borrow_mut().chips.iter_mut() {
        c.mark();
    }
    let r0: Vec<usize> = rig.board.borrow().chips.iter().map(|c| c.refreshes.len()).collect();
    let _ = rig.apply(&Op12::Write1(small_rows(3)));
    let _ = rig.apply(&Op12::Refresh);
    let b = rig.board.borrow();
    b.chips
        .iter()
        .enumerate()
        .map(|(i, c)| {
            let h = crate::prng::hash_bytes(&c.planes[0].data) ^ crate::prng::hash_bytes(&c.planes[0].wc.iter().map(|w| *w as u8).collect::<Vec<_>>());
            (h, c.refreshes.len() - r0[i], c.refreshes.last().map(|r| r.power == Power::On && !r.asleep).unwrap_or(false))
        })
        .collect()
}

// ------------------------------------------------------------------------------------------ C05
pub fn c05(rep: &mut Report, thorough: bool) {
    let dvals: Vec<u32> = if thorough { (0..8).collect() } else { vec![0, 1, 3, 7] };
    let seqs: Vec<Vec<Op12>> = vec![
        vec![Op12::Refresh, Op12::Write1(small_rows(1))],
        vec![Op12::Refresh, Op12::Refresh],
        vec![Op12::BeginRefresh, Op12::PollUntilIdle, Op12::Write2(small_rows(1))],
        vec![Op12::RefreshPartial((8, 8, 64, 64)), Op12::Write1Partial((8, 8, 64, 4), vec![3; 32])],
        vec![Op12::BeginRefreshPartial((8, 8, 64, 64)), Op12::PollUntilIdle, Op12::Refresh],
        vec![Op12::Refresh, Op12::PowerOff, Op12::Refresh],
        vec![Op12::Refresh, Op12::Hibernate],
    ];
    // (power-on, refresh) duration pairs: the small grid, plus very long (still finite) periods - a wait that
    // gives up after some number of polls returns while sub-displays are busy
    const LONG_PULSE: u32 = 10_007;
    let mut pairs: Vec<(u32, u32)> = Vec::new();
    for dp in &dvals {
        for dr in &dvals {
            pairs.push((*dp, *dr));
        }
    }
    pairs.extend([(1, LONG_PULSE), (LONG_PULSE, 1), (LONG_PULSE, LONG_PULSE)]);
    for seq in &seqs {
        // per-chip durations for (power-on episode, refresh episode)
        {
            for (dp, dr) in &pairs {
                for skew in 0..4u32 {
                    if (*dp == LONG_PULSE || *dr == LONG_PULSE) && !thorough && skew > 1 {
                        continue;
                    }
                    rep.eval(P);
                    let mut rig = Rig12::new(|b| b.busy_mode = BusyMode::Physical);
                    let _ = rig.apply(&Op12::Reset);
                    let _ = rig.apply(&Op12::Init(0));
                    {
                        let mut b = rig.board.borrow_mut();
                        for (ci, c) in b.chips.iter_mut().enumerate() {
                            // chips finish at different times: one chip is slower by `skew`
                            let extra = if ci as u32 == skew { 2 } else { 0 };
                            c.busy.schedule = vec![*dp, *dr + extra, *dp, *dr + extra, *dp, *dr];
                            c.busy.pos = 0;
                            c.busy.default_d = 1;
                            c.busy.episodes = 0;
                            c.busy_violations.clear();
                        }
                    }
                    let case = J::obj().set("panel", P).set("history", seq.iter().map(|o| o.to_json()).collect::<Vec<_>>()).set("busy_polls", vec![*dp, *dr]).set("slow_chip", skew);
                    for (i, o) in seq.iter().enumerate() {
                        let out = rig.apply(o);
                        match &out {
                            Outcome::Ok => {}
                            Outcome::Spin(n) => {
                                fail(rep, o.name(), "spins-on-idle", vec![], format!("op #{} kept polling idle sub-displays ({} polls)", i + 1, n), case.clone());
                                break;
                            }
                            other => {
                                rep.count("ops_failing_for_other_reasons", 1);
                                let _ = other;
                                break;
                            }
                        }
                        let b = rig.board.borrow();
                        for (ci, c) in b.chips.iter().enumerate() {
                            if let Some((kind, opc, _)) = c.busy_violations.first() {
                                fail(rep, o.name(), kind, vec![format!("cmd={:02X}", opc)], format!("op #{} ({}) reached chip {} while its refresh was still signalled busy", i + 1, o.name(), CHIP_NAMES[ci]), case.clone());
                            }
                            // synchronous refresh / explicit polling must return only when every chip is idle
                            if matches!(o, Op12::Refresh | Op12::RefreshPartial(_) | Op12::PollUntilIdle) && c.busy.active() {
                                fail(rep, o.name(), "wait-returned-busy", vec![], format!("op #{} ({}) returned while chip {} is still busy", i + 1, o.name(), CHIP_NAMES[ci]), case.clone());
                            }
                        }
                    }
                    let b = rig.board.borrow();
                    rep.count("polls_observed", b.polls);
                    rep.count("busy_episodes_raised", b.chips.iter().map(|c| c.busy.episodes as u64).sum());
                    if *dp > 0 || *dr > 0 {
                        rep.nontrivial(hash_str(&format!("12c05|{}|{}|{}|{}", case.to_string(), dp, dr, skew)));
                    }
                }
            }
        }
    }
}

// ------------------------------------------------------------------------------------------ C08
/// hibernate = sleep, reset + init = wake-up
pub fn c08(rep: &mut Report, thorough: bool) {
    let prefixes: Vec<Vec<Op12>> = vec![
        vec![],
        vec![Op12::Write1(small_rows(2))],
        vec![Op12::Refresh],
        vec![Op12::Write2Partial((640, 488, 16, 8), vec![0xA5; 16]), Op12::RefreshPartial((640, 488, 16, 8))],
        vec![Op12::PowerOff],
        vec![Op12::SetMode(7)],
    ];
    let suffixes: Vec<Vec<Op12>> = vec![
        vec![],
        vec![Op12::Write1(small_rows(3))],
        vec![Op12::Write2Partial((8, 480, 1288, 20), small_rows(20)[..161 * 20].to_vec())],
        vec![Op12::Write1(small_rows(1)), Op12::Refresh],
    ];
    let cycles: Vec<u32> = if thorough { vec![0, 1, 2, 3] } else { vec![0, 1, 2] };
    // reference: construction
    let reference = |suf: &Vec<Op12>| -> (Vec<std::collections::BTreeMap<u8, Vec<u8>>>, Vec<(u64, u64)>, Vec<usize>) {
        let mut r = Rig12::ready();
        let snaps = r.board.borrow().chips.iter().map(|c| c.reg_snapshot()).collect();
        for c in r.board.borrow_mut().chips.iter_mut() {
            c.mark();
        }
        let r0: Vec<usize> = r.board.borrow().chips.iter().map(|c| c.refreshes.len()).collect();
        for o in suf {
            let _ = r.apply(o);
        }
        let b = r.board.borrow();
        let eff = b.chips.iter().map(|c| (c.planes[0].writes, c.planes[1].writes)).collect();
        let refr = b.chips.iter().enumerate().map(|(i, c)| c.refreshes.len() - r0[i]).collect();
        (snaps, eff, refr)
    };
    for pre in &prefixes {
        for suf in &suffixes {
            for cyc in &cycles {
                rep.eval(P);
                let mut rig = Rig12::ready();
                let mut hist: Vec<Op12> = pre.clone();
                let mut ok = true;
                for o in pre {
                    if !rig.apply(o).is_ok() {
                        ok = false;
                    }
                }
                if !ok {
                    rep.count("ops_failing_for_other_reasons", 1);
                    continue;
                }
                let mut fails: Vec<(String, String, Vec<String>, String)> = Vec::new();
                let n = (*cyc).max(1);
                for _ in 0..n {
                    if *cyc > 0 {
                        hist.push(Op12::Hibernate);
                        let o = rig.apply(&Op12::Hibernate);
                        if !o.is_ok() {
                            ok = false;
                            break;
                        }
                        let b = rig.board.borrow();
                        for (ci, c) in b.chips.iter().enumerate() {
                            let last = c.cmds.iter().filter(|x| x.opidx == c.opidx).last();
                            let sig_ok = last.map(|l| l.op == 0x07 && l.nparams == 1 && l.params[0] == 0xA5).unwrap_or(false);
                            if !sig_ok || !c.asleep {
                                fails.push(("hibernate".into(), "sleep-signature".into(), vec![format!("chip={}", CHIP_NAMES[ci])], format!("chip {}: last command {:?}, asleep={}", CHIP_NAMES[ci], last.map(|l| (l.op, l.params.clone())), c.asleep)));
                            }
                        }
                    }
                    hist.push(Op12::Reset);
                    hist.push(Op12::Init(0));
                    let r0: Vec<u32> = rig.board.borrow().chips.iter().map(|c| c.resets).collect();
                    let o1 = rig.apply(&Op12::Reset);
                    let o2 = rig.apply(&Op12::Init(0));
                    if !o1.is_ok() || !o2.is_ok() {
                        ok = false;
                        break;
                    }
                    let b = rig.board.borrow();
                    for (ci, c) in b.chips.iter().enumerate() {
                        rep.count("reset_pulses_checked", 1);
                        if c.resets == r0[ci] {
                            fails.push(("reset".into(), "no-reset-on-wake".into(), vec![format!("chip={}", CHIP_NAMES[ci])], format!("chip {} saw no reset pulse during reset()", CHIP_NAMES[ci])));
                        }
                        if c.asleep {
                            fails.push(("reset".into(), "no-reset-on-wake".into(), vec![format!("chip={}", CHIP_NAMES[ci]), "still-asleep".into()], format!("chip {} still in deep sleep after reset(); init()", CHIP_NAMES[ci])));
                        }
                    }
                }
                if !ok {
                    rep.count("ops_failing_for_other_reasons", 1);
                    continue;
                }
                hist.extend(suf.iter().cloned());
                let (snaps_ref, eff_ref, refr_ref) = reference(suf);
                {
                    let b = rig.board.borrow();
                    for (ci, c) in b.chips.iter().enumerate() {
                        rep.count("register_snapshots_compared", 1);
                        let s = c.reg_snapshot();
                        if s != snaps_ref[ci] {
                            let k = s.iter().find(|(k, v)| snaps_ref[ci].get(k) != Some(v)).map(|(k, _)| *k).or_else(|| snaps_ref[ci].keys().find(|k| !s.contains_key(k)).copied()).unwrap_or(0);
                            fails.push(("init".into(), "register-snapshot-differs".into(), vec![format!("reg={:02X}", k), format!("chip={}", CHIP_NAMES[ci])], format!("chip {} register {:02X} after wake-up differs from construction", CHIP_NAMES[ci], k)));
                        }
                    }
                }
                for c in rig.board.borrow_mut().chips.iter_mut() {
                    c.mark();
                }
                let r0: Vec<usize> = rig.board.borrow().chips.iter().map(|c| c.refreshes.len()).collect();
                for o in suf {
                    let _ = rig.apply(o);
                }
                {
                    let b = rig.board.borrow();
                    for (ci, c) in b.chips.iter().enumerate() {
                        let eff = (c.planes[0].writes, c.planes[1].writes);
                        let refr = c.refreshes.len() - r0[ci];
                        if eff != eff_ref[ci] || refr != refr_ref[ci] {
                            fails.push(("reset".into(), "post-wake-memory-differs".into(), vec![format!("chip={}", CHIP_NAMES[ci])], format!("after wake-up the suffix stored {:?} bytes / {} refreshes on chip {}, after construction {:?} / {}", eff, refr, CHIP_NAMES[ci], eff_ref[ci], refr_ref[ci])));
                        }
                    }
                    if !suf.is_empty() {
                        rep.count("suffix_memory_effects_compared", 1);
                    }
                }
                let case = J::obj().set("panel", P).set("history", hist.iter().map(|o| o.to_json()).collect::<Vec<_>>());
                rep.nontrivial(hash_str(&format!("12c08|{}", case.to_string())));
                fails.dedup();
                for (entry, class, tags, detail) in fails {
                    fail(rep, &entry, &class, tags, detail, case.clone());
                }
            }
        }
    }
    // hibernate while an asynchronous refresh is still running, on sub-displays that ignore what they receive
    // while busy: hibernate has to wait the refresh out (however long it takes) before the deep-sleep command
    for (d, skew) in [(3u32, 4usize), (40, 4), (10_007, 4), (10_007, 2)] {
        let seq = vec![Op12::Write1(small_rows(1)), Op12::BeginRefresh, Op12::Hibernate];
        rep.eval(P);
        let mut rig = Rig12::new(|b| b.busy_mode = BusyMode::Physical);
        let _ = rig.apply(&Op12::Reset);
        let _ = rig.apply(&Op12::Init(0));
        {
            let mut b = rig.board.borrow_mut();
            for (ci, c) in b.chips.iter_mut().enumerate() {
                c.busy.default_d = if skew == 4 || ci == skew { d } else { 2 };
                c.drop_while_busy = true;
            }
        }
        let case = J::obj().set("panel", P).set("history", seq.iter().map(|o| o.to_json()).collect::<Vec<_>>()).set("busy_polls", d).set("slow_chip", skew);
        rep.nontrivial(hash_str(&format!("12c08busy|{}|{}", d, skew)));
        if seq.iter().any(|o| !rig.apply(o).is_ok()) {
            rep.count("ops_failing_for_other_reasons", 1);
            continue;
        }
        rep.count("hibernate_during_refresh_checked", 1);
        let b = rig.board.borrow();
        for (ci, c) in b.chips.iter().enumerate() {
            if !c.asleep {
                fail(rep, "hibernate", "sleep-signature", vec![format!("chip={}", CHIP_NAMES[ci]), "panel-busy".into()], format!("hibernate() called while the refresh started by begin_refresh_display keeps {} busy for {} polls returned with chip {} not in deep sleep ({} commands ignored while busy)", if skew == 4 { "all sub-displays" } else { CHIP_NAMES[skew] }, d, CHIP_NAMES[ci], c.dropped_while_busy), case.clone());
                break;
            }
        }
    }
}


// ------------------------------------------------------------------------------------------ C01
/// full-frame delivery on the four-controller panel: write_data1 / write_data2 with full buffers
pub fn c01(rep: &mut Report, thorough: bool) {
    use crate::props::c15::{check_write, Case};
    let salts: Vec<u64> = if thorough { (0..24).collect() } else { (0..4).collect() };
    for plane2 in [false, true] {
        for s in &salts {
            // byte sweeps / coded contents come from the salt of the pixel generator; full buffer
            check_write(&Case { win: None, rows: H, plane2, salt: 0xC0100 + *s, pred: None }, rep);
        }
        check_write(&Case { win: None, rows: 1, plane2, salt: 0xC0177, pred: None }, rep);
    }
    // memory: each chip's plane holds exactly its rectangle of the image
    for plane2 in [false, true] {
        rep.eval(P);
        let rb = (W / 8) as usize;
        let p = crate::props::c15::pixels(rb, H as usize, 0xC01AA + plane2 as u64);
        let mut rig = Rig12::ready();
        for c in rig.board.borrow_mut().chips.iter_mut() {
            c.mark();
        }
        let op = if plane2 { Op12::Write2(p.clone()) } else { Op12::Write1(p.clone()) };
        let o = rig.apply(&op);
        let case = J::obj().set("panel", P).set("op", op.to_json());
        rep.nontrivial(hash_str(&format!("12c01mem|{}", plane2)));
        if !o.is_ok() {
            fail(rep, op.name(), "panic", vec![], o.short(), case);
            continue;
        }
        let b = rig.board.borrow();
        for (ci, chip) in b.chips.iter().enumerate() {
            let r = CHIP_RECTS[ci];
            let pl = &chip.planes[plane2 as usize];
            let other = &chip.planes[1 - plane2 as usize];
            let crb = (r.2 / 8) as usize;
            let mut bad: Option<String> = None;
            for y in 0..r.3 as usize {
                for xb in 0..crb {
                    let want = p[(r.1 as usize + y) * rb + (r.0 / 8) as usize + xb];
                    let i = y * crb + xb;
                    if pl.wc[i] != 1 || pl.data[i] != want {
                        bad = Some(format!("chip {} row {} byte {}: holds {:02X} written {} times, image has {:02X}", CHIP_NAMES[ci], y, xb, pl.data[i], pl.wc[i], want));
                        break;
                    }
                }
                if bad.is_some() {
                    break;
                }
            }
            rep.count("plane_bytes_compared", (crb * r.3 as usize) as u64);
            if let Some(d) = bad {
                fail(rep, op.name(), "primary-plane-differs", vec![format!("chip={}", CHIP_NAMES[ci])], d, case.clone());
            }
            if other.writes != 0 {
                fail(rep, op.name(), "other-plane-partial", vec![format!("chip={}", CHIP_NAMES[ci])], format!("the other plane of chip {} received {} bytes", CHIP_NAMES[ci], other.writes), case.clone());
            }
        }
    }
    // display: one refresh per chip, no image data
    for op in [Op12::Refresh, Op12::BeginRefresh] {
        rep.eval(P);
        let mut rig = Rig12::ready();
        let _ = rig.apply(&Op12::Write1(small_rows(2)));
        for c in rig.board.borrow_mut().chips.iter_mut() {
            c.mark();
        }
        let r0: Vec<usize> = rig.board.borrow().chips.iter().map(|c| c.refreshes.len()).collect();
        let o = rig.apply(&op);
        let case = J::obj().set("panel", P).set("op", op.to_json());
        rep.nontrivial(hash_str(&format!("12c01disp|{}", op.name())));
        if !o.is_ok() {
            fail(rep, op.name(), "panic", vec![], o.short(), case);
            continue;
        }
        let b = rig.board.borrow();
        for (ci, chip) in b.chips.iter().enumerate() {
            let n = chip.refreshes.len() - r0[ci];
            rep.count("refresh_triggers_observed", n as u64);
            if n != 1 {
                fail(rep, op.name(), "refresh-count≠1", vec![format!("chip={}", CHIP_NAMES[ci]), format!("n={}", n)], format!("chip {} received {} refresh triggers", CHIP_NAMES[ci], n), case.clone());
            }
            if chip.planes[0].writes + chip.planes[1].writes != 0 {
                fail(rep, op.name(), "image-data-in-display", vec![format!("chip={}", CHIP_NAMES[ci])], "refresh call wrote image memory".into(), case.clone());
            }
        }
    }
}

/// C01 on sub-displays that do not release BUSY together and that ignore commands while busy: the image
/// memory after [write; refresh; write(new image); refresh] must be the same as on always-idle sub-displays
pub fn c01_busy(rep: &mut Report, thorough: bool) {
    let rb = (W / 8) as usize;
    let img_a = crate::props::c15::pixels(rb, H as usize, 0xC01B1);
    let img_b = crate::props::c15::pixels(rb, H as usize, 0xC01B2);
    let seqs: Vec<Vec<Op12>> = vec![
        vec![Op12::Write1(img_a.clone()), Op12::Refresh, Op12::Write1(img_b.clone())],
        vec![Op12::Write2(img_a.clone()), Op12::Refresh, Op12::Write2(img_b.clone()), Op12::Refresh],
        vec![Op12::Write1(img_a.clone()), Op12::BeginRefresh, Op12::PollUntilIdle, Op12::Write1(img_b.clone())],
        // (no partial refresh here: the unchanged driver sends PartialOut right behind DisplayRefresh, i.e. while
        // the sub-displays are busy, so the command-ignoring model does not fit that call)
        vec![Op12::Refresh, Op12::Write1Partial((632, 484, 32, 16), vec![0x5A; 64]), Op12::Refresh, Op12::Write1(img_b.clone())],
    ];
    let snapshot = |rig: &Rig12| -> Vec<(u64, u64)> { rig.board.borrow().chips.iter().map(|c| (crate::prng::hash_bytes(&c.planes[0].data), crate::prng::hash_bytes(&c.planes[1].data))).collect() };
    for (si, seq) in seqs.iter().enumerate() {
        let mut idle = Rig12::ready();
        let mut ok = true;
        for o in seq {
            ok &= idle.apply(o).is_ok();
        }
        if !ok {
            continue;
        }
        let want = snapshot(&idle);
        let skews: Vec<usize> = if thorough { vec![0, 1, 2, 3, 4] } else { vec![4, 3, 0] }; // 4 = all equal
        for skew in skews {
            // (10 000 extra polls: a wait that gives up after some number of polls returns while busy)
            for extra in if thorough { vec![1u32, 3, 6, 10_007] } else { vec![3u32, 10_007] } {
                rep.eval(P);
                rep.nontrivial(hash_str(&format!("12c01busy|{}|{}|{}", si, skew, extra)));
                let mut rig = Rig12::new(|b| b.busy_mode = BusyMode::Physical);
                let _ = rig.apply(&Op12::Reset);
                let _ = rig.apply(&Op12::Init(0));
                {
                    let mut b = rig.board.borrow_mut();
                    for (ci, c) in b.chips.iter_mut().enumerate() {
                        // skew 4 = all sub-displays equally slow
                        c.busy.default_d = 2 + if ci == skew || (skew == 4 && extra > 6) { extra } else { 0 };
                        c.drop_while_busy = true;
                    }
                }
                let mut fine = true;
                for o in seq {
                    if !rig.apply(o).is_ok() {
                        fine = false;
                        break;
                    }
                }
                if !fine {
                    rep.count("ops_failing_for_other_reasons", 1);
                    continue;
                }
                let got = snapshot(&rig);
                rep.count("busy_memory_snapshots_compared", 4);
                for ci in 0..4 {
                    if got[ci] != want[ci] {
                        let dropped = rig.board.borrow().chips[ci].dropped_while_busy;
                        fail(
                            rep,
                            seq.last().unwrap().name(),
                            "primary-plane-differs",
                            vec![format!("chip={}", CHIP_NAMES[ci]), "panel-busy".into()],
                            format!("image memory of {} differs from the same calls on always-idle sub-displays when {} stays busy {} polls longer and busy sub-displays ignore commands ({} commands ignored by it)", CHIP_NAMES[ci], if skew < 4 { CHIP_NAMES[skew] } else { "no sub-display" }, extra, dropped),
                            J::obj().set("panel", P).set("history", seq.iter().map(|o| o.to_json()).collect::<Vec<_>>()).set("slow_chip", skew).set("extra_polls", extra),
                        );
                        break;
                    }
                }
            }
        }
    }
}

// ------------------------------------------------------------------------------------------ C06
/// partial writes of the 12.48in driver (window per chip = intersection, data exactly once)
pub fn c06(rep: &mut Report, thorough: bool, seed: u64) {
    use crate::props::c15::{check_write, Case};
    let mut rng = Rng::derive(seed, 0x1206);
    let mut wins: Vec<(u32, u32, u32, u32)> = vec![
        (0, 0, 8, 1),
        (W - 8, H - 1, 8, 1),
        (640, 488, 16, 8),
        (632, 484, 32, 16),
        (648, 492, 8, 1),
        (640, 491, 8, 1),
        (0, 0, W, H),
        (0, 490, W, 4),
        (640, 0, 16, H),
        (8, 8, 64, 40),
        (656, 500, 64, 40),
        (656, 8, 640, 480),
        (0, 492, 648, 492),
    ];
    let n = if thorough { 2000 } else { 120 };
    for _ in 0..n {
        let wb = rng.range(1, (W / 8) as i64) as u32;
        let xb = rng.range(0, (W / 8 - wb) as i64) as u32;
        let h = if rng.chance(1, 2) { rng.range(1, 24) as u32 } else { rng.range(1, H as i64) as u32 };
        let y = rng.range(0, (H - h) as i64) as u32;
        wins.push((xb * 8, y, wb * 8, h));
    }
    for (i, w) in wins.iter().enumerate() {
        for plane2 in [false, true] {
            check_write(&Case { win: Some(*w), rows: w.3, plane2, salt: 0xC0600 + i as u64, pred: None }, rep);
            // the same partial write directly after another call on the same driver
            let preds = [
                Op12::Write1Partial(*w, vec![0x3C; (w.2 / 8) as usize]),
                Op12::Write2Partial((8, 8, 64, 4), vec![0xA5; 32]),
                Op12::RefreshPartial(*w),
                Op12::Write1(small_rows(1)),
                Op12::SetMode(9),
                Op12::Refresh,
            ];
            if thorough || i % 2 == plane2 as usize {
                let p = preds[(i + plane2 as usize) % preds.len()].clone();
                check_write(&Case { win: Some(*w), rows: w.3, plane2, salt: 0xC0600 + i as u64, pred: Some(p) }, rep);
            }
        }
    }
}

// ------------------------------------------------------------------------------------------ C10
/// wire framing on the shared bus: D/C agreement of the selected chips, one-byte commands,
/// control lines stable between switch and transfer, LUT padding counts
pub fn c10(rep: &mut Report) {
    let mut seqs: Vec<Vec<Op12>> = ops12().into_iter().map(|o| vec![o]).collect();
    seqs.push(vec![Op12::BeginRefresh, Op12::PollUntilIdle]);
    seqs.push(vec![Op12::Write1Partial((0, 0, W, H), small_rows(1)), Op12::RefreshPartial((0, 0, W, H))]);
    // look-up tables of every length class: empty, one byte, one short of / exactly / beyond the register length
    for reg in [0x20u8, 0x21, 0x22, 0x23, 0x24, 0x25] {
        let full = if reg == 0x21 || reg == 0x25 { 42 } else { 60 };
        for len in [0usize, 1, full - 1, full, full + 1, 2 * full] {
            seqs.push(vec![Op12::SetLut(reg, (0..len).map(|i| (i * 7 + reg as usize) as u8).collect())]);
        }
    }
    // pixel buffers shorter than one row are not legal; one row and k rows are (row wrap)
    for seq in seqs {
        let mut rig = Rig12::ready();
        for op in &seq {
            rep.eval(P);
            let o = rig.apply(op);
            let case = J::obj().set("panel", P).set("op", op.to_json());
            rep.nontrivial(hash_str(&format!("12c10|{}", op.to_json().to_string())));
            if !o.is_ok() {
                rep.count("ops_failing_for_other_reasons", 1);
                break;
            }
            let mut fails = Vec::new();
            crate::props::c15::check_pins(&rig, &mut fails);
            // a pin change between the control switch and the transfer it qualifies?
            {
                let b = rig.board.borrow();
                let segs = crate::props::common::op_segments(&b.log);
                let (_, s, e) = *segs.last().unwrap();
                rep.count("transfers_examined", b.log[s..e].iter().filter(|e| matches!(e, Ev::Spi { .. })).count() as u64);
                for ev in &b.log[s..e] {
                    if let Ev::Spi { len, .. } = ev {
                        if *len > 4096 {
                            fails.push(("transfer>4096".into(), vec![], format!("bus write of {} bytes", len)));
                        }
                    }
                }
            }
            if let Op12::SetLut(r, d) = op {
                let want = if *r == 0x21 || *r == 0x25 { 42 } else { 60 };
                let b = rig.board.borrow();
                for (ci, chip) in b.chips.iter().enumerate() {
                    match chip.cmds.iter().filter(|c| c.opidx == chip.opidx).find(|c| c.op == *r) {
                        Some(c) if c.nparams as usize == want.max(d.len()) => {}
                        other => fails.push(("fill-count".into(), vec!["lut-padding".into()], format!("LUT {:02X} on {}: {:?} bytes, expected {}", r, CHIP_NAMES[ci], other.map(|c| c.nparams), want))),
                    }
                }
            }
            for (class, tags, detail) in fails {
                fail(rep, op.name(), &class, tags, detail, case.clone());
            }
        }
    }
}

/// "the line is driven to its level before the transfer it qualifies": what each controller decodes
/// must not depend on the level the select and data/command lines happen to have when the driver is
/// created. Each sequence runs on a board whose outputs power up released (CS high, D/C low) and on
/// boards with hostile power-on levels; the per-controller (command, parameter count, content) streams
/// must be identical. No reset() in front: reset() is not required before init()/writes by the API.
pub fn c10_power_on_levels(rep: &mut Report) {
    let rst = Pin::RstM1S1.bit() | Pin::RstM2S2.bit();
    let cs = Pin::CsM1.bit() | Pin::CsS1.bit() | Pin::CsM2.bit() | Pin::CsS2.bit();
    let dc = Pin::DcM1S1.bit() | Pin::DcM2S2.bit();
    let benign = rst | cs;
    // only the D/C lines vary: C10 is about the D/C line; the chip selects stay released
    let hostile: [(&str, u16); 3] = [
        ("all-outputs-high", rst | cs | dc),
        ("only-upper-dc-high", rst | cs | Pin::DcM2S2.bit()),
        ("only-lower-dc-high", rst | cs | Pin::DcM1S1.bit()),
    ];
    let mut seqs: Vec<Vec<Op12>> = ops12().into_iter().map(|o| vec![o]).collect();
    seqs.push(vec![Op12::Init(0), Op12::Write1Partial((640, 488, 16, 8), vec![0xA5; 16])]);
    seqs.push(vec![Op12::GetStatus, Op12::Init(3)]);
    seqs.push(vec![Op12::Reset, Op12::Init(0)]);
    let stream = |levels: u16, seq: &Vec<Op12>| -> Option<Vec<Vec<(u32, u8, u32, u64)>>> {
        let mut rig = Rig12::new(|b| b.levels = levels);
        for op in seq {
            if !rig.apply(op).is_ok() {
                return None;
            }
        }
        let b = rig.board.borrow();
        Some(b.chips.iter().map(|c| c.cmds.iter().map(|r| (r.opidx, r.op, r.nparams, r.hash)).collect()).collect())
    };
    for seq in &seqs {
        let base = stream(benign, seq);
        for (name, lv) in hostile {
            rep.eval(P);
            rep.nontrivial(hash_str(&format!("12c10pl|{}|{}", name, seq.iter().map(|o| o.to_json().to_string()).collect::<Vec<_>>().join(";"))));
            let got = stream(lv, seq);
            let (base, got) = match (&base, &got) {
                (Some(b), Some(g)) => (b, g),
                (None, None) => {
                    rep.count("ops_failing_for_other_reasons", 1);
                    continue;
                }
                _ => {
                    fail(rep, seq[0].name(), "dc-not-driven", vec![format!("power-on={}", name), "outcome".into()], "the sequence succeeds or fails depending on the power-on level of the control lines".into(), J::obj().set("panel", P).set("power_on_levels", name));
                    continue;
                }
            };
            for chip in 0..4 {
                rep.count("power_on_streams_compared", 1);
                rep.count("power_on_commands_compared", base[chip].len() as u64);
                if base[chip] != got[chip] {
                    let k = base[chip].iter().zip(got[chip].iter()).position(|(a, b)| a != b).unwrap_or(base[chip].len().min(got[chip].len()));
                    let opi = base[chip].get(k).or(got[chip].get(k)).map(|r| r.0).unwrap_or(1) as usize;
                    let entry = seq.get(opi.saturating_sub(1)).map(|o| o.name()).unwrap_or("new");
                    let case = J::obj().set("panel", P).set("power_on_levels", name).set("ops", J::Arr(seq.iter().map(|o| o.to_json()).collect()));
                    fail(
                        rep,
                        entry,
                        "dc-not-driven",
                        vec![format!("power-on={}", name)],
                        format!(
                            "controller {} decodes a different stream when the control lines power up as {} (command #{}: released power-up {:02X?}, this power-up {:02X?}): a select or D/C line was not driven before the transfer it qualifies",
                            CHIP_NAMES[chip],
                            name,
                            k,
                            base[chip].get(k).map(|r| (r.1, r.2)),
                            got[chip].get(k).map(|r| (r.1, r.2))
                        ),
                        case,
                    );
                    break;
                }
            }
        }
    }
}

// ------------------------------------------------------------------------------------------ C02
/// a full-frame write is independent of the calls made before it
pub fn c02(rep: &mut Report, thorough: bool) {
    let alpha: Vec<Vec<Op12>> = vec![
        vec![Op12::Write1Partial((640, 488, 16, 8), vec![0xA5; 16])],
        vec![Op12::Write2Partial((8, 8, 64, 4), vec![0x5A; 32])],
        vec![Op12::Write1Partial((0, 0, W, H), small_rows(1))],
        vec![Op12::RefreshPartial((632, 480, 32, 24))],
        vec![Op12::BeginRefreshPartial((8, 8, 64, 64)), Op12::PollUntilIdle],
        vec![Op12::Refresh],
        vec![Op12::PowerOff],
        vec![Op12::SetMode(9)],
        vec![Op12::SetLut(0x22, vec![7; 11])],
        vec![Op12::Write2(small_rows(2))],
        vec![Op12::Hibernate, Op12::Reset, Op12::Init(0)],
        vec![Op12::Reset, Op12::Init(3)],
        vec![Op12::GetStatus],
    ];
    let probe = |plane2: bool| -> Op12 {
        let p = crate::props::c15::pixels((W / 8) as usize, H as usize, 0xC0212);
        if plane2 {
            Op12::Write2(p)
        } else {
            Op12::Write1(p)
        }
    };
    let snapshot = |rig: &Rig12, plane2: bool| -> Vec<(u64, u64)> {
        rig.board
            .borrow()
            .chips
            .iter()
            .map(|c| {
                let pl = &c.planes[plane2 as usize];
                (crate::prng::hash_bytes(&pl.data), crate::prng::hash_bytes(&pl.wc.iter().map(|w| (*w).min(255) as u8).collect::<Vec<_>>()))
            })
            .collect()
    };
    let fresh: Vec<Vec<(u64, u64)>> = [false, true]
        .iter()
        .map(|p2| {
            let mut r = Rig12::ready();
            for c in r.board.borrow_mut().chips.iter_mut() {
                c.mark();
            }
            let _ = r.apply(&probe(*p2));
            snapshot(&r, *p2)
        })
        .collect();
    let maxlen = if thorough { 3 } else { 2 };
    let mut seqs: Vec<Vec<usize>> = vec![vec![]];
    let mut all: Vec<Vec<usize>> = Vec::new();
    for _ in 0..maxlen {
        let mut nx = Vec::new();
        for s in &seqs {
            for a in 0..alpha.len() {
                let mut t = s.clone();
                t.push(a);
                nx.push(t);
            }
        }
        all.extend(nx.iter().cloned());
        seqs = nx;
    }
    for h in all {
        for p2 in [false, true] {
            if p2 && h.len() > 1 && !thorough {
                continue;
            }
            rep.eval(P);
            let mut rig = Rig12::ready();
            let ops: Vec<Op12> = h.iter().flat_map(|i| alpha[*i].iter().cloned()).collect();
            let mut ok = true;
            for o in &ops {
                if !rig.apply(o).is_ok() {
                    ok = false;
                    break;
                }
            }
            if !ok {
                rep.count("histories_with_failing_op", 1);
                continue;
            }
            for c in rig.board.borrow_mut().chips.iter_mut() {
                c.mark();
            }
            let pr = probe(p2);
            let o = rig.apply(&pr);
            let case = J::obj().set("panel", P).set("history", ops.iter().map(|o| o.to_json()).collect::<Vec<_>>()).set("probe", pr.name());
            rep.nontrivial(hash_str(&format!("12c02|{:?}|{}", h, p2)));
            if !o.is_ok() {
                fail(rep, pr.name(), "probe-failed", vec![], o.short(), case);
                continue;
            }
            let snap = snapshot(&rig, p2);
            rep.count("plane_bytes_compared", (W / 8 * H) as u64);
            for ci in 0..4 {
                if snap[ci] != fresh[p2 as usize][ci] {
                    let first = h.iter().map(|i| alpha[*i][0].name()).collect::<Vec<_>>().join(">");
                    fail(rep, pr.name(), "probe-plane-differs", vec![format!("chip={}", CHIP_NAMES[ci]), format!("hist:{}", first)], format!("after the history the full-frame write leaves chip {} different from a fresh driver", CHIP_NAMES[ci]), case.clone());
                    break;
                }
            }
        }
    }
}

// ------------------------------------------------------------------------------------------ C12
/// twin execution on the 12.48in driver: buffers complemented (and dropped) right after the call
pub fn c12(rep: &mut Report) {
    let seqs: Vec<Vec<Op12>> = vec![
        vec![Op12::Write1(small_rows(2)), Op12::Write2(small_rows(1)), Op12::Refresh],
        vec![Op12::Write1Partial((640, 488, 16, 8), vec![0xA5; 16]), Op12::RefreshPartial((640, 488, 16, 8)), Op12::Write1Partial((640, 488, 16, 8), vec![0x11; 16])],
        vec![Op12::SetLut(0x20, vec![1; 20]), Op12::SetLut(0x21, vec![2; 42]), Op12::SetMode(16), Op12::Refresh],
        vec![Op12::Write2(small_rows(3)), Op12::Write1(small_rows(3)), Op12::Write2Partial((8, 8, 64, 4), vec![0x5A; 32]), Op12::Refresh, Op12::Write1(small_rows(1))],
    ];
    let trace = |rig: &Rig12| -> Vec<(u16, Vec<u8>)> {
        let b = rig.board.borrow();
        b.log
            .iter()
            .filter_map(|e| match e {
                Ev::Spi { levels, off, len, .. } => Some((*levels, b.bytes[*off as usize..(*off + *len) as usize].to_vec())),
                _ => None,
            })
            .collect()
    };
    for seq in seqs {
        rep.eval(P);
        let mut a = Rig12::ready();
        let mut kept: Vec<Op12> = Vec::new();
        for o in &seq {
            let op = o.clone();
            let _ = a.apply(&op);
            kept.push(op);
        }
        // retention monitor: a word of the driver object that changes during a call to an address inside a
        // buffer lent so far, reproduced in a second run whose buffers live at other addresses
        let scan = |pad: usize| -> Vec<(usize, usize, usize, usize)> {
            let _shift: Vec<Vec<u8>> = (0..pad).map(|i| vec![0u8; 4096 + 64 * i]).collect();
            let mut rig = Rig12::ready();
            let mut held: Vec<Op12> = Vec::new();
            let mut cands = Vec::new();
            for (oi, o) in seq.iter().enumerate() {
                let op = o.clone();
                let before = crate::panels::words_of(&rig.drv);
                let _ = rig.apply(&op);
                held.push(op);
                let after = crate::panels::words_of(&rig.drv);
                for (wi, w) in after.iter().enumerate() {
                    if before.get(wi) == Some(w) {
                        continue;
                    }
                    for (ki, k) in held.iter().enumerate() {
                        if let Op12::Write1(p) | Op12::Write2(p) | Op12::Write1Partial(_, p) | Op12::Write2Partial(_, p) | Op12::SetLut(_, p) = k {
                            let lo = p.as_ptr() as usize;
                            if !p.is_empty() && *w >= lo && *w < lo + p.len() {
                                cands.push((oi, wi, ki, *w - lo));
                            }
                        }
                    }
                }
            }
            cands
        };
        let first = scan(0);
        rep.count("driver_words_scanned", (crate::panels::words_of(&a.drv).len() * seq.len()) as u64);
        if !first.is_empty() {
            let second = scan(3);
            if let Some((oi, _wi, ki, off)) = first.iter().find(|c| second.contains(c)) {
                fail(rep, seq[*ki].name(), "pointer-retained", vec![], format!("during call #{} a word of the driver object became an address inside the buffer lent to call #{} ({}), offset {}; reproduced with the buffers at other addresses", oi + 1, ki + 1, seq[*ki].name(), off), J::obj().set("panel", P).set("history", seq.iter().map(|o| o.to_json()).collect::<Vec<_>>()));
            }
        }
        let mut b = Rig12::ready();
        for o in &seq {
            let mut op = o.clone();
            let _ = b.apply(&op);
            // scribble the buffer the call borrowed, then drop it
            match &mut op {
                Op12::Write1(p) | Op12::Write2(p) | Op12::Write1Partial(_, p) | Op12::Write2Partial(_, p) | Op12::SetLut(_, p) => {
                    for x in p.iter_mut() {
                        *x = !*x;
                    }
                    std::hint::black_box(&p);
                }
                _ => {}
            }
            drop(op);
            let junk = vec![0x5Au8; 4096];
            std::hint::black_box(&junk);
        }
        let (ta, tb) = (trace(&a), trace(&b));
        rep.count("transfers_compared", ta.len() as u64);
        let case = J::obj().set("panel", P).set("history", seq.iter().map(|o| o.to_json()).collect::<Vec<_>>());
        rep.nontrivial(hash_str(&format!("12c12|{}", case.to_string())));
        if ta != tb {
            let i = ta.iter().zip(tb.iter()).position(|(x, y)| x != y).unwrap_or(ta.len().min(tb.len()));
            fail(rep, "epd12in48b_v2", "wire-depends-on-dead-buffer", vec![], format!("transfer {} differs between the run with intact buffers and the run with scribbled buffers", i), case);
        }
    }
}
