//! Development aid: run every supported op of every panel once on a fresh driver and print what happened.
use crate::ops::*;
use crate::panels::*;
use crate::props::common::*;
use crate::report::Report;
use crate::Ctx;

pub fn run(ctx: &Ctx) -> Report {
    let mut rep = Report::new();
    for spec in SPECS {
        if let Some(p) = &ctx.only_panel {
            if p != spec.name {
                continue;
            }
        }
        println!("=== {} {}x{}", spec.name, spec.w, spec.h);
        for sym in syms(spec) {
          let mut rig = Rig::simple(spec);
          for op in sym {
            let n0 = rig.board.borrow().spi_writes;
            let c0 = rig.board.borrow().chip().cmds.len();
            rig.board.borrow_mut().chip_mut().mark();
            let o = rig.apply(&op);
            let b = rig.board.borrow();
            let chip = b.chip();
            let cmds: Vec<String> = chip.cmds[c0..].iter().map(|c| format!("{:02X}/{}", c.op, c.nparams)).collect();
            let an: Vec<String> = chip.anomaly_counts.iter().map(|(k, v)| format!("{}x{}", k, v)).collect();
            println!(
                "  {:<40} {:<8} xfers={:<7} w0={:<7} w1={:<7} refresh={} asleep={} anomalies={:?}\n      cmds: {}",
                op.short(),
                o.short(),
                b.spi_writes - n0,
                chip.planes[0].writes,
                chip.planes[1].writes,
                chip.refreshes.len(),
                chip.asleep,
                an,
                cmds.join(" ")
            );
            rep.eval(spec.name);
          }
        }
    }
    rep
}
