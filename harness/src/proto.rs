//! Protocol tables written from the controller-family datasheets and the vendor reference
//! sequences: which opcodes exist, which commands carry fixed parameter blocks.
use crate::model::Family;
use crate::panels::Spec;

/// opcodes defined by the family datasheets (union over the parts of the family)
pub fn family_opcodes(f: Family) -> &'static [u8] {
    match f {
        Family::Ssd => &[
            0x01, 0x03, 0x04, 0x08, 0x09, 0x0A, 0x0C, 0x0F, 0x10, 0x11, 0x12, 0x14, 0x15, 0x18, 0x1A, 0x1B, 0x1C, 0x20, 0x21, 0x22, 0x24, 0x26, 0x27, 0x28, 0x29, 0x2A, 0x2B,
            0x2C, 0x2D, 0x2E, 0x2F, 0x30, 0x31, 0x32, 0x33, 0x34, 0x35, 0x36, 0x37, 0x38, 0x39, 0x3A, 0x3B, 0x3C, 0x3F, 0x41, 0x44, 0x45, 0x46, 0x47, 0x4E, 0x4F, 0x74, 0x7E,
            0x7F, 0xFF,
        ],
        Family::Uc => &[
            0x00, 0x01, 0x02, 0x03, 0x04, 0x05, 0x06, 0x07, 0x10, 0x11, 0x12, 0x13, 0x14, 0x15, 0x16, 0x17, 0x20, 0x21, 0x22, 0x23, 0x24, 0x25, 0x26, 0x27, 0x28, 0x29, 0x2A,
            0x30, 0x40, 0x41, 0x42, 0x43, 0x44, 0x50, 0x51, 0x52, 0x60, 0x61, 0x62, 0x65, 0x70, 0x71, 0x80, 0x81, 0x82, 0x90, 0x91, 0x92, 0xA0, 0xA1, 0xA2, 0xE0, 0xE3, 0xE5,
        ],
        Family::Acep => &[0x00, 0x01, 0x02, 0x03, 0x04, 0x06, 0x07, 0x10, 0x11, 0x12, 0x30, 0x40, 0x41, 0x50, 0x60, 0x61, 0x65, 0x71, 0x82, 0xE3],
    }
}

/// opcodes outside the family datasheet that the vendor's reference sequence for the panel uses
pub fn vendor_extras(panel: &str) -> &'static [u8] {
    match panel {
        // Waveshare 2.7in reference init: "power optimisation" 0xF8 writes
        "epd2in7" | "epd2in7b" => &[0xF8],
        // Waveshare 3.7in reference sleep sequence (UC-style tail on an SSD1677 part)
        "epd3in7" => &[0x50, 0x02, 0x07],
        // Waveshare 7.3in (F) reference init
        "epd7in3f" => &[0xAA, 0x05, 0x08, 0x13, 0x84, 0x86, 0xE0, 0xE6],
        _ => &[],
    }
}

pub fn opcode_defined(spec: &Spec, op: u8) -> bool {
    family_opcodes(spec.family).contains(&op) || vendor_extras(spec.name).contains(&op)
}

/// Fixed-arity block commands: allowed parameter counts, or None if the command is not a
/// block command covered by C18 (address, window, resolution, entry-mode, update-control,
/// sleep-mode blocks).
pub fn block_arity(spec: &Spec, op: u8) -> Option<&'static [u32]> {
    match spec.family {
        Family::Ssd => match op {
            0x01 => Some(&[3]),
            0x10 => Some(&[1]),
            0x11 => Some(&[1]),
            0x21 => Some(&[1, 2]),
            0x22 => Some(&[1]),
            0x44 => Some(if spec.x_pixel_units { &[4] } else { &[2] }),
            0x45 => Some(&[4]),
            0x4E => Some(if spec.x_pixel_units { &[2] } else { &[1] }),
            0x4F => Some(&[2]),
            // vendor sleep tail on 3in7
            0x07 if spec.name == "epd3in7" => Some(&[1]),
            _ => None,
        },
        Family::Uc | Family::Acep => match op {
            0x07 => Some(&[1]),
            0x61 => Some(match spec.name {
                "epd1in02" => &[2],
                "epd1in54b" | "epd1in54c" | "epd2in13bc" | "epd2in9bc" | "epd2in9d" => &[3],
                _ => &[4],
            }),
            0x90 => match spec.win_fmt {
                crate::model::WinFmt::W5 => Some(&[5]),
                crate::model::WinFmt::W7 => Some(&[7]),
                crate::model::WinFmt::W9 => Some(&[9]),
                crate::model::WinFmt::None => None,
            },
            // 2.7in partial refresh block; the vendor init sequence sends it with one byte
            0x16 if spec.xywl => Some(&[8, 1]),
            _ => None,
        },
    }
}

/// Commands that take no parameters at all (used by the C10 well-formedness decode: a data byte
/// following them means the D/C line was mis-driven). Only commands whose datasheet entry has no
/// parameter are listed.
pub fn zero_arity(spec: &Spec, op: u8) -> bool {
    match spec.family {
        Family::Ssd => matches!(op, 0x12 | 0x20 | 0x7F | 0xFF) || (spec.name == "epd3in7" && op == 0x02),
        Family::Uc => matches!(op, 0x02 | 0x04 | 0x11 | 0x12 | 0x91 | 0x92 | 0x71),
        // the 7.3in (F) vendor sequence sends one parameter byte with 0x12 / 0x02
        Family::Acep => {
            if spec.name == "epd7in3f" {
                matches!(op, 0x04)
            } else {
                matches!(op, 0x02 | 0x04 | 0x12)
            }
        }
    }
}

pub fn is_ram_write(spec: &Spec, op: u8) -> bool {
    match spec.family {
        Family::Ssd => op == 0x24 || op == 0x26,
        Family::Uc => op == 0x10 || op == 0x13 || (spec.xywl && (op == 0x14 || op == 0x15)),
        Family::Acep => op == 0x10,
    }
}
