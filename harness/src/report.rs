//! Per-run report: what was executed, what the monitors observed, what failed.
use crate::json::J;
use std::collections::{BTreeMap, HashSet};
use std::sync::atomic::{AtomicUsize, Ordering};
use std::sync::Mutex;

#[derive(Clone, Debug)]
pub struct Failure {
    pub panel: String,
    pub entry: String,
    pub class: String,
    pub tags: Vec<String>,
    pub detail: String,
    pub case: J,
}

impl Failure {
    pub fn sig(&self) -> String {
        format!("{}|{}|{}|{}", self.panel, self.entry, self.class, self.tags.join(","))
    }
    pub fn to_json(&self) -> J {
        J::obj()
            .set("panel", &self.panel)
            .set("entry", &self.entry)
            .set("class", &self.class)
            .set("tags", self.tags.clone())
            .set("detail", &self.detail)
            .set("case", self.case.clone())
    }
}

#[derive(Clone, Debug, Default)]
pub struct Report {
    pub evaluations: u64,
    pub nontrivial: HashSet<u64>,
    pub counters: BTreeMap<String, u64>,
    pub per_panel: BTreeMap<String, u64>,
    pub samples: Vec<J>,
    pub failures: Vec<Failure>,
    pub fail_counts: BTreeMap<String, u64>,
    pub inconclusive: u64,
    pub inconclusive_notes: Vec<String>,
    pub states: HashSet<u64>,
    pub notes: Vec<String>,
}

pub const MAX_FAIL_PER_SIG: u64 = 3;
pub const MAX_SAMPLES: usize = 12;

impl Report {
    pub fn new() -> Report {
        Report::default()
    }
    pub fn count(&mut self, k: &str, n: u64) {
        *self.counters.entry(k.to_string()).or_insert(0) += n;
    }
    pub fn eval(&mut self, panel: &str) {
        self.evaluations += 1;
        *self.per_panel.entry(panel.to_string()).or_insert(0) += 1;
    }
    pub fn nontrivial(&mut self, h: u64) {
        self.nontrivial.insert(h);
    }
    pub fn state(&mut self, h: u64) {
        self.states.insert(h);
    }
    pub fn sample(&mut self, j: J) {
        if self.samples.len() < MAX_SAMPLES {
            self.samples.push(j);
        }
    }
    pub fn inconclusive(&mut self, note: &str) {
        self.inconclusive += 1;
        if self.inconclusive_notes.len() < 20 && !self.inconclusive_notes.iter().any(|n| n == note) {
            self.inconclusive_notes.push(note.to_string());
        }
    }
    pub fn note(&mut self, n: &str) {
        if !self.notes.iter().any(|x| x == n) {
            self.notes.push(n.to_string());
        }
    }
    pub fn fail(&mut self, f: Failure) {
        let sig = f.sig();
        let c = self.fail_counts.entry(sig).or_insert(0);
        *c += 1;
        if *c <= MAX_FAIL_PER_SIG {
            self.failures.push(f);
        }
    }
    pub fn merge(&mut self, o: Report) {
        self.evaluations += o.evaluations;
        self.nontrivial.extend(o.nontrivial);
        self.states.extend(o.states);
        for (k, v) in o.counters {
            *self.counters.entry(k).or_insert(0) += v;
        }
        for (k, v) in o.per_panel {
            *self.per_panel.entry(k).or_insert(0) += v;
        }
        for s in o.samples {
            self.sample(s);
        }
        for f in o.failures {
            let sig = f.sig();
            let have = self.failures.iter().filter(|x| x.sig() == sig).count() as u64;
            if have < MAX_FAIL_PER_SIG {
                self.failures.push(f);
            }
        }
        for (k, v) in o.fail_counts {
            *self.fail_counts.entry(k).or_insert(0) += v;
        }
        self.inconclusive += o.inconclusive;
        for n in o.inconclusive_notes {
            if self.inconclusive_notes.len() < 20 && !self.inconclusive_notes.contains(&n) {
                self.inconclusive_notes.push(n);
            }
        }
        for n in o.notes {
            self.note(&n);
        }
    }
    pub fn to_json(&self) -> J {
        let mut counters = J::obj();
        for (k, v) in &self.counters {
            counters.put(k, *v);
        }
        let mut pp = J::obj();
        for (k, v) in &self.per_panel {
            pp.put(k, *v);
        }
        let mut fc = J::obj();
        for (k, v) in &self.fail_counts {
            fc.put(k, *v);
        }
        J::obj()
            .set("evaluations", self.evaluations)
            .set("distinct_nontrivial", self.nontrivial.len())
            .set("distinct_states", self.states.len())
            .set("counters", counters)
            .set("per_panel", pp)
            .set("samples", J::Arr(self.samples.clone()))
            .set("failures", J::Arr(self.failures.iter().map(|f| f.to_json()).collect()))
            .set("fail_counts", fc)
            .set("inconclusive", self.inconclusive)
            .set("inconclusive_notes", self.inconclusive_notes.clone())
            .set("notes", self.notes.clone())
    }
}

/// Run `f` over `cases` on `threads` OS threads; each thread keeps its own Report; merge at the end.
/// `f` must be deterministic per case; order of merging is by case index chunks, but counts are
/// order-independent. Samples are taken from the lowest-index cases first for reproducibility.
pub fn par_run<C: Sync, F>(cases: &[C], threads: usize, f: F) -> Report
where
    F: Fn(usize, &C, &mut Report) + Sync,
{
    let next = AtomicUsize::new(0);
    let merged = Mutex::new(Vec::<(usize, Report)>::new());
    let threads = threads.max(1).min(cases.len().max(1));
    let chunk = (cases.len() / (threads * 8)).max(1);
    std::thread::scope(|s| {
        for _ in 0..threads {
            s.spawn(|| loop {
                let start = next.fetch_add(chunk, Ordering::SeqCst);
                if start >= cases.len() {
                    break;
                }
                let end = (start + chunk).min(cases.len());
                let mut r = Report::new();
                for i in start..end {
                    f(i, &cases[i], &mut r);
                }
                merged.lock().unwrap().push((start, r));
            });
        }
    });
    let mut v = merged.into_inner().unwrap();
    v.sort_by_key(|x| x.0);
    let mut out = Report::new();
    for (_, r) in v {
        out.merge(r);
    }
    out
}

/// keep the cases with index % n == i (sharding a workload over several short processes)
pub fn shard<T>(v: Vec<T>, s: (usize, usize)) -> Vec<T> {
    if s.1 <= 1 {
        return v;
    }
    v.into_iter().enumerate().filter(|(k, _)| k % s.1 == s.0).map(|(_, c)| c).collect()
}
