"""Sanitizer layer: AddressSanitizer (C12, all panels, full-size frames) and Miri (C12 on the small
panels incl. the only `unsafe` driver; C03/C13/C14/C16 on small domains).

A sanitizer report whose stack contains a frame under /repo/src is a violation of the property
being exercised (class `asan:<kind>` / `miri:<kind>`, tag = the driver function in /repo/src).
If a sanitizer cannot be built or run the result is *inconclusive*, never a violation."""
import json, os, re, subprocess, sys, time
from concurrent.futures import ThreadPoolExecutor

ROOT = os.path.dirname(os.path.abspath(__file__))
HARNESS = os.path.join(ROOT, "harness")
OUT = os.path.join(ROOT, "out")
ASAN_DIR = os.path.join(HARNESS, "target-asan")
MIRI_DIR = os.path.join(HARNESS, "target-miri")
ASAN_BIN = os.path.join(ASAN_DIR, "x86_64-unknown-linux-gnu", "release", "epdmon")

ENV = dict(os.environ)
ENV["CARGO_NET_OFFLINE"] = "true"
ENV.setdefault("CARGO_TERM_COLOR", "never")

PANELS = ["epd1in02", "epd1in54", "epd1in54_v2", "epd1in54b", "epd1in54c", "epd2in13_v2", "epd2in13b_v4", "epd2in13bc", "epd2in66b", "epd2in7", "epd2in7_v2",
          "epd2in7b", "epd2in9", "epd2in9_v2", "epd2in9b_v4", "epd2in9bc", "epd2in9d", "epd3in7", "epd4in2", "epd5in65f", "epd5in83_v2", "epd5in83b_v2", "epd7in3f",
          "epd7in5", "epd7in5_hd", "epd7in5_v2", "epd7in5b_v2"]
MIRI_PANELS = ["epd2in9d", "epd1in02", "epd1in54c", "epd2in13bc"]


def build_asan(log):
    env = dict(ENV)
    env["RUSTFLAGS"] = "-Zsanitizer=address -Cforce-frame-pointers=yes"
    cmd = ["cargo", "+nightly", "build", "--release", "--offline", "--target", "x86_64-unknown-linux-gnu", "--target-dir", ASAN_DIR, "--features", "verif"]
    t0 = time.time()
    p = subprocess.run(cmd, cwd=HARNESS, env=env, stdout=subprocess.PIPE, stderr=subprocess.STDOUT, text=True)
    if p.returncode != 0:
        log("[sanitize] ASan build failed:\n" + p.stdout[-3000:])
        return False
    log("[sanitize] ASan build ok in %.1fs" % (time.time() - t0))
    return True


def miri_cmd(args):
    return ["cargo", "+nightly", "miri", "run", "--offline", "--target-dir", MIRI_DIR, "--features", "verif", "--"] + args


def miri_env():
    env = dict(ENV)
    env["MIRIFLAGS"] = "-Zmiri-disable-isolation"
    return env


def setup(log):
    build_asan(log)
    # warm the Miri sysroot and build
    t0 = time.time()
    p = subprocess.run(miri_cmd(["C16", "--mode", "miri", "--threads", "1", "--out", os.path.join(OUT, "miri-warm.json")]), cwd=HARNESS, env=miri_env(), stdout=subprocess.PIPE, stderr=subprocess.STDOUT, text=True)
    log("[sanitize] Miri warm-up rc=%s in %.1fs" % (p.returncode, time.time() - t0))


FRAME_RE = re.compile(r"in (.*?) (/repo/src/[^\s:]+):(\d+)")


def parse_asan(text):
    """returns list of (kind, func, file) for each report block"""
    reps = []
    for block in text.split("================================================================="):
        m = re.search(r"ERROR: AddressSanitizer: ([\w-]+)", block)
        if not m:
            continue
        kind = m.group(1)
        func, file = None, None
        frames = FRAME_RE.findall(block.split("freed by thread")[0] if "freed by thread" in block else block)
        # prefer the driver frame (epd*/mod.rs) over the generic interface frame
        pick = None
        for fn, path, line in frames:
            if "/repo/src/epd" in path:
                pick = (fn, path, line)
                break
        if pick is None and frames:
            pick = frames[0]
        if pick:
            fn, path, line = pick
            mm = re.search(r"::(\w+)$", fn.strip()) or re.search(r"(\w+)$", fn.strip())
            func = mm.group(1) if mm else fn.strip()[-40:]
            file = path.replace("/repo/", "")
        reps.append((kind, func, file, block[:3000]))
    return reps


def run_asan_panel(panel, tier, seed, shard=None):
    os.makedirs(OUT, exist_ok=True)
    tag = panel if shard is None else "%s-%d" % (panel, shard[0])
    outp = os.path.join(OUT, "asan-%s.json" % tag)
    if os.path.exists(outp):
        os.remove(outp)
    env = dict(ENV)
    env["ASAN_OPTIONS"] = "halt_on_error=1:detect_leaks=0:abort_on_error=0:symbolize=1"
    cmd = [ASAN_BIN, "C12", "--mode", "twin-b", "--tier", tier, "--seed", str(seed), "--panel", panel, "--out", outp, "--threads", "2"]
    if shard is not None:
        cmd += ["--shard", "%d/%d" % shard]
    try:
        p = subprocess.run(cmd, cwd=ROOT, env=env, stdout=subprocess.PIPE, stderr=subprocess.PIPE, text=True, timeout=1800)
    except subprocess.TimeoutExpired:
        return panel, None, [], "timeout"
    reps = parse_asan(p.stderr)
    rep = None
    if os.path.exists(outp):
        with open(outp) as f:
            rep = json.load(f)
    err = None
    if rep is None and not reps:
        err = "rc=%s %s" % (p.returncode, p.stderr[-300:])
    return panel, rep, reps, err


def run_c12(tier, seed, log):
    res = {"summary": {}, "failures": [], "evaluations": 0, "distinct_nontrivial": 0, "inconclusive": 0, "inconclusive_notes": []}
    # ---------------- ASan -----------------
    t0 = time.time()
    if not build_asan(log):
        res["inconclusive"] += 1
        res["inconclusive_notes"].append("ASan build unavailable: sanitizer half of C12 inconclusive")
        res["summary"]["asan"] = "unavailable"
    else:
        asan = {"panels": {}, "reports": []}
        with ThreadPoolExecutor(max_workers=8) as ex:
            results = list(ex.map(lambda p: run_asan_panel(p, tier, seed), PANELS))
        reporting = []
        for panel, rep, reps, err in results:
            if err:
                res["inconclusive"] += 1
                res["inconclusive_notes"].append("asan %s: %s" % (panel, err))
                continue
            if rep:
                res["evaluations"] += rep["evaluations"]
                res["distinct_nontrivial"] += rep["distinct_nontrivial"]
                asan["panels"][panel] = {"histories": rep["evaluations"], "transfers": rep["counters"].get("transfers_executed", 0)}
            if reps:
                reporting.append(panel)
            for kind, func, file, block in reps:
                asan["reports"].append({"panel": panel, "kind": kind, "func": func, "file": file})
                res["failures"].append({"panel": panel, "entry": func or "?", "class": "asan:%s" % kind, "tags": [file or "?"],
                                        "detail": "AddressSanitizer %s in %s (%s)" % (kind, func, file), "case": {"panel": panel, "mode": "twin-b", "report_head": block[:1200]}})
        # a panel whose process was stopped by its first report: explore the rest in shards
        for panel in reporting:
            n = 12
            with ThreadPoolExecutor(max_workers=8) as ex:
                sres = list(ex.map(lambda i: run_asan_panel(panel, tier, seed, (i, n)), range(n)))
            done = 0
            for _, rep, reps, err in sres:
                if rep:
                    done += rep["evaluations"]
                    res["evaluations"] += rep["evaluations"]
                    res["distinct_nontrivial"] += rep["distinct_nontrivial"]
                for kind, func, file, block in reps:
                    asan["reports"].append({"panel": panel, "kind": kind, "func": func, "file": file, "shard": True})
                    res["failures"].append({"panel": panel, "entry": func or "?", "class": "asan:%s" % kind, "tags": [file or "?"],
                                            "detail": "AddressSanitizer %s in %s (%s)" % (kind, func, file), "case": {"panel": panel, "mode": "twin-b", "report_head": block[:1200]}})
            asan["panels"][panel] = {"sharded": n, "histories_completed_in_clean_shards": done}
        asan["wall_s"] = round(time.time() - t0, 1)
        res["summary"]["asan"] = asan
    # ---------------- Miri -----------------
    t0 = time.time()
    miri = {"panels": {}, "reports": []}
    panels = MIRI_PANELS if tier == "thorough" else MIRI_PANELS[:1]

    def one(panel):
        outp = os.path.join(OUT, "miri-C12-%s.json" % panel)
        if os.path.exists(outp):
            os.remove(outp)
        cmd = miri_cmd(["C12", "--mode", "miri", "--panel", panel, "--threads", "1", "--seed", str(seed), "--out", outp])
        try:
            p = subprocess.run(cmd, cwd=HARNESS, env=miri_env(), stdout=subprocess.PIPE, stderr=subprocess.PIPE, text=True, timeout=3000)
        except subprocess.TimeoutExpired:
            return panel, None, None, "timeout"
        rep = None
        if os.path.exists(outp):
            with open(outp) as f:
                rep = json.load(f)
        return panel, rep, p.stderr, None if (rep or "Undefined Behavior" in p.stderr) else "rc=%s %s" % (p.returncode, p.stderr[-400:])

    with ThreadPoolExecutor(max_workers=4) as ex:
        mres = list(ex.map(one, panels))
    for panel, rep, stderr, err in mres:
        if err:
            res["inconclusive"] += 1
            res["inconclusive_notes"].append("miri %s: %s" % (panel, err))
            continue
        if rep:
            res["evaluations"] += rep["evaluations"]
            res["distinct_nontrivial"] += rep["distinct_nontrivial"]
            miri["panels"][panel] = {"histories": rep["evaluations"], "transfers": rep["counters"].get("transfers_executed", 0)}
        f = parse_miri(stderr or "")
        if f:
            kind, func, file, head = f
            miri["reports"].append({"panel": panel, "kind": kind, "func": func, "file": file})
            res["failures"].append({"panel": panel, "entry": func or "?", "class": "miri:%s" % kind, "tags": [file or "?"],
                                    "detail": "Miri: %s in %s (%s)" % (kind, func, file), "case": {"panel": panel, "mode": "miri", "report_head": head}})
    miri["wall_s"] = round(time.time() - t0, 1)
    res["summary"]["miri"] = miri
    return res


def parse_miri(text):
    m = re.search(r"error: Undefined Behavior: (.*)", text)
    if not m:
        return None
    msg = m.group(1)
    if "dangling" in msg or "freed" in msg or "use-after-free" in msg or "has been freed" in msg:
        kind = "use-after-free"
    elif "out-of-bounds" in msg:
        kind = "out-of-bounds"
    else:
        kind = "undefined-behavior"
    tail = text[m.start():]
    func, file = None, None
    # backtrace lines look like:  = note: inside `path::func` at /repo/src/...:L:C
    frames = re.findall(r"\d+: (.*)\n\s+at (/repo/src/[^\s:]+):(\d+)", tail)
    frames += re.findall(r"inside `([^`]*)` at (/repo/src/[^\s:]+):(\d+)", tail)
    pick = None
    for fn, path, line in frames:
        if "/repo/src/epd" in path or "/repo/src/graphics" in path or "/repo/src/color" in path or "/repo/src/rect" in path:
            pick = (fn, path)
            break
    if pick is None and frames:
        pick = (frames[0][0], frames[0][1])
    if pick is None:
        mm = re.search(r"--> (/repo/src/[^\s:]+):(\d+)", tail)
        if mm:
            pick = ("?", mm.group(1))
    if pick:
        fn, path = pick
        mm = re.search(r"::(\w+)(?:::\{closure[^}]*\})?$", fn) or re.search(r"(\w+)$", fn)
        func = mm.group(1) if mm else fn[-40:]
        file = path.replace("/repo/", "")
    return kind, func, file, tail[:1500]


PURE_SHARDS = {"C03": 12, "C13": 6, "C14": 3, "C16": 3}


def run_pure(prop, tier, seed, log):
    res = {"summary": {}, "failures": [], "evaluations": 0, "distinct_nontrivial": 0, "inconclusive": 0, "inconclusive_notes": []}
    t0 = time.time()
    n = PURE_SHARDS.get(prop, 1)
    # build once (sequentially) so the shards do not race on the target directory
    subprocess.run(["cargo", "+nightly", "miri", "build", "--offline", "--target-dir", MIRI_DIR, "--features", "verif"], cwd=HARNESS, env=miri_env(), stdout=subprocess.PIPE, stderr=subprocess.STDOUT, text=True)

    def one(i):
        outp = os.path.join(OUT, "miri-%s-%d.json" % (prop, i))
        if os.path.exists(outp):
            os.remove(outp)
        cmd = miri_cmd([prop, "--mode", "miri", "--threads", "1", "--seed", str(seed), "--shard", "%d/%d" % (i, n), "--out", outp])
        try:
            p = subprocess.run(cmd, cwd=HARNESS, env=miri_env(), stdout=subprocess.PIPE, stderr=subprocess.PIPE, text=True, timeout=3000)
        except subprocess.TimeoutExpired:
            return i, None, None, "timeout"
        rep = None
        if os.path.exists(outp):
            with open(outp) as f:
                rep = json.load(f)
        return i, rep, p.stderr, None

    with ThreadPoolExecutor(max_workers=min(n, 12)) as ex:
        results = list(ex.map(one, range(n)))
    summ = {"shards": n, "cases": 0, "monitor_failure_signatures": 0}
    sigs = set()
    for i, rep, stderr, err in results:
        f = parse_miri(stderr or "")
        if err or (rep is None and f is None):
            res["inconclusive"] += 1
            res["inconclusive_notes"].append("miri %s shard %d: %s" % (prop, i, err or (stderr or "")[-300:]))
            continue
        if rep:
            # the Miri run executes the same monitors on a small domain: its monitor failures are the
            # same findings as in the native run and are not duplicated here; only UB reports count.
            summ["cases"] += rep["evaluations"]
            sigs.update(rep.get("fail_counts", {}).keys())
            res["evaluations"] += rep["evaluations"]
            res["distinct_nontrivial"] += rep["distinct_nontrivial"]
        if f:
            kind, func, file, head = f
            summ.setdefault("reports", []).append({"kind": kind, "func": func, "file": file})
            res["failures"].append({"panel": "miri", "entry": func or "?", "class": "miri:%s" % kind, "tags": [file or "?"], "detail": "Miri: %s in %s (%s)" % (kind, func, file), "case": {"mode": "miri", "report_head": head}})
    summ["monitor_failure_signatures"] = len(sigs)
    summ["wall_s"] = round(time.time() - t0, 1)
    res["summary"]["miri"] = summ
    return res


def run(prop, tier, seed, log):
    if prop == "C12":
        return run_c12(tier, seed, log)
    if tier != "thorough":
        # the small-domain Miri pass of the pure-code properties belongs to the thorough tier
        return {"summary": {"miri": "thorough tier only"}, "failures": [], "evaluations": 0, "distinct_nontrivial": 0}
    return run_pure(prop, tier, seed, log)
