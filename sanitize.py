"""Sanitizer layer (Miri, AddressSanitizer) — filled in together with C12."""


def setup(log):
    return


def run(prop, tier, seed, log):
    return {"summary": {"note": "sanitizer layer not wired yet"}, "failures": [], "evaluations": 0, "distinct_nontrivial": 0}
