#!/bin/bash
# usage: tools/benign_regress.sh [id ...]
# Applies every stored behaviour-preserving change (benign/<id>/patch.diff) in turn and runs ALL 18 quick checks
# on the patched tree (tools/try_patch.sh always restores /repo). Every line must end with "silent".
cd /verif
ids="$@"
[ -z "$ids" ] && ids=$(ls benign)
for id in $ids; do
  out=$(tools/try_patch.sh /verif/benign/$id/patch.diff C01 C02 C03 C04 C05 C06 C07 C08 C09 C10 C11 C12 C13 C14 C15 C16 C17 C18 2>&1)
  if echo "$out" | grep -q "patch does not apply"; then echo "$id NOAPPLY"; continue; fi
  bad=$(echo "$out" | grep -E "^== C[0-9]+ rc=[123]" | tr '\n' ' ')
  if [ -z "$bad" ]; then echo "$id silent (18 checks)"; else echo "$id ALARM $bad"; echo "$out" | grep "^  detail" | head -3 | cut -c1-200; fi
done
