#!/bin/bash
# Re-run every claimed check (quick tier) on the unchanged tree, validate evidence + manifest.
cd /verif
if ! git -C /repo diff --quiet; then echo "/repo has uncommitted changes; refusing"; exit 2; fi
rc=0
for p in C01 C02 C03 C04 C05 C06 C07 C08 C09 C10 C11 C12 C13 C14 C15 C16 C17 C18; do
  out=$(./check $p --tier quick 2>/dev/null); r=$?
  echo "$out" | grep -E "^VIOLATION|^\[check\]" | cut -c1-200
  [ $r -ne 0 ] && rc=1
done
python3-vt - <<'PY'
import json,jsonschema,glob
sch=json.load(open('/root/.vp/EVIDENCE.schema.json'))
for f in sorted(glob.glob('/verif/evidence/*.json')): jsonschema.validate(json.load(open(f)), sch)
jsonschema.validate(json.load(open('/verif/MANIFEST.json')), json.load(open('/root/.vp/MANIFEST.schema.json')))
print('schemas ok:', len(glob.glob('/verif/evidence/*.json')), 'evidence files')
PY
exit $rc
