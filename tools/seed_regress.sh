#!/bin/bash
# usage: tools/seed_regress.sh [seed-id ...]
# Applies every stored seeded change in turn (tools/try_patch.sh: /repo is always restored), runs the
# quick check of the property it was aimed at and prints one line per seed: CAUGHT / MISSED / NOAPPLY.
cd /verif
ids="$@"
[ -z "$ids" ] && ids=$(ls seeded)
for id in $ids; do
  prop=${id%%-*}
  if grep -q '"status": "obsolete' seeded/$id/meta.json 2>/dev/null; then echo "$id OBSOLETE"; continue; fi
  out=$(tools/try_patch.sh /verif/seeded/$id/patch.diff $prop 2>&1)
  if echo "$out" | grep -q "patch does not apply"; then echo "$id NOAPPLY"; continue; fi
  n=$(echo "$out" | grep -c "^  detail")
  rc=$(echo "$out" | grep -o "rc=[0-9]*" | head -1)
  nc=""; grep -q '"status": "not-caught"' seeded/$id/meta.json 2>/dev/null && nc=" (recorded as not caught, see DESIGN.md section 14)"
  if [ "$n" -gt 0 ]; then echo "$id CAUGHT $rc $(echo "$out" | grep '^  detail' | head -1 | cut -c11-150)"; else echo "$id MISSED $rc$nc"; fi
done
