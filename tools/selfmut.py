#!/usr/bin/env python3
"""Self-made sanity mutations (string replacements on /repo/src) to confirm each monitor fires.
usage: tools/selfmut.py [name ...]   -- always restores /repo (git checkout) after each mutation"""
import subprocess, sys, os
M = {
 # name: (file, old, new, [properties expected to fire])
 "c01-swap-dtm": ("src/epd4in2/mod.rs", ".cmd_with_data(spi, Command::DataStartTransmission2, buffer)?;", ".cmd_with_data(spi, Command::DataStartTransmission1, buffer)?;", ["C01"]),
 "c07-7in5-fill-value": ("src/epd7in5/mod.rs", ".data_x_times(spi, 0x33,", ".data_x_times(spi, 0x30,", ["C07"]),
 "c01-drop-counter-reset": ("src/epd1in54/mod.rs", "        // start from the beginning\n        self.set_ram_counter(spi, delay, 0, 0)", "        // start from the beginning\n        Ok(())", ["C02", "C01"]),
 "c10-chunk-4097": ("src/interface.rs", "data.chunks(4096)", "data.chunks(4097)", ["C10"]),
 "c10-dc-after-write": ("src/interface.rs", "        let _ = self.dc.set_low();\n\n        // Transfer the command over spi\n        self.write(spi, &[command.address()])", "        // Transfer the command over spi\n        let r = self.write(spi, &[command.address()]);\n        let _ = self.dc.set_low();\n        r", ["C10"]),
 "c10-x-times-inclusive": ("src/interface.rs", "for _ in 0..repetitions {", "for _ in 0..=repetitions {", ["C10", "C07", "C01"]),
 "c11-no-low-delay": ("src/interface.rs", "        let _ = self.rst.set_low();\n        delay.delay_us(duration);", "        let _ = self.rst.set_low();", ["C11"]),
 "c11-no-settle": ("src/interface.rs", "        delay.delay_us(200_000);", "", ["C11"]),
 "c15-row-offset": ("src/epd12in48b_v2/mod.rs", "                    let begin = row_offset(top_rows + y) + left_bytes;", "                    let begin = row_offset(top_rows + y);", ["C15"]),
 "c15-no-mirror": ("src/epd12in48b_v2/mod.rs", "                    Some(width) => width - window.x - window.w,", "                    Some(_width) => window.x,", ["C15"]),
 "c15-flush-missing": ("src/epd12in48b_v2/mod.rs", "        self.write_partial(Command::DataStartTransmission2, window, pixels)?;\n        self.flush()", "        self.write_partial(Command::DataStartTransmission2, window, pixels)", ["C15"]),
 "c15-bdv-table": ("src/epd12in48b_v2/mod.rs", "            (true, BorderLUT::LUTW) => 0b01,", "            (true, BorderLUT::LUTW) => 0b10,", ["C15"]),
 "c18-resolution-swap": ("src/epd4in2/mod.rs", "        self.send_data(spi, &[(w >> 8) as u8])?;\n        self.send_data(spi, &[w as u8])?;\n        self.send_data(spi, &[(h >> 8) as u8])?;\n        self.send_data(spi, &[h as u8])", "        self.send_data(spi, &[(h >> 8) as u8])?;\n        self.send_data(spi, &[h as u8])?;\n        self.send_data(spi, &[(w >> 8) as u8])?;\n        self.send_data(spi, &[w as u8])", ["C18"]),
 "c18-opcode": ("src/epd2in9_v2/mod.rs", "Command::DisplayUpdateControl2, &[0xC0]", "Command::DisplayUpdateControl2, &[]", ["C18"]),
 "c04-swallow": ("src/epd4in2/mod.rs", "        self.interface\n            .data_x_times(spi, color_value, WIDTH / 8 * HEIGHT)?;\n\n        self.interface\n            .cmd_with_data(spi, Command::DataStartTransmission2, buffer)?;", "        let _ = self\n            .interface\n            .data_x_times(spi, color_value, WIDTH / 8 * HEIGHT);\n\n        self.interface\n            .cmd_with_data(spi, Command::DataStartTransmission2, buffer)?;", ["C04"]),
 "c09-no-pon": ("src/epd4in2/mod.rs", "        self.command(spi, Command::PowerOn)?;\n", "", ["C09"]),
 "c17-reload-full": ("src/epd1in54/mod.rs", "        match self.refresh {\n            RefreshLut::Full => self.set_lut_helper(spi, delay, &LUT_FULL_UPDATE),", "        match refresh_rate.unwrap_or_default() {\n            RefreshLut::Full => self.set_lut_helper(spi, delay, &LUT_FULL_UPDATE),", ["C17"]),
 "c08-check-code": ("src/epd4in2/mod.rs", ".cmd_with_data(spi, Command::DeepSleep, &[0xA5])?;", ".cmd_with_data(spi, Command::DeepSleep, &[0xA6])?;", ["C08"]),
 "c02-no-partial-out": ("src/epd4in2/mod.rs", "        self.send_data(spi, buffer)?;\n\n        self.command(spi, Command::PartialOut)?;", "        self.send_data(spi, buffer)?;\n", ["C02", "C07"]),
 "c05-polarity": ("src/epd4in2/mod.rs", "const IS_BUSY_LOW: bool = true;", "const IS_BUSY_LOW: bool = false;", ["C05"]),
 "c05-delay-const": ("src/interface.rs", "delay_us.unwrap_or(10_000)", "delay_us.unwrap_or(1_000)", ["C05"]),
 "c06-no-or7": ("src/epd4in2/mod.rs", "        self.send_data(spi, &[(tmp | 0x07) as u8])?;\n\n        self.send_data(spi, &[(y >> 8) as u8])?;\n        self.send_data(spi, &[y as u8])?;\n\n        self.send_data(spi, &[((y + height - 1) >> 8) as u8])?;\n        self.send_data(spi, &[(y + height - 1) as u8])?;\n\n        self.send_data(spi, &[0x01])?; // Gates scan both inside and outside of the partial window. (default)\n\n        //TODO: handle dtm somehow", "        self.send_data(spi, &[tmp as u8])?;\n\n        self.send_data(spi, &[(y >> 8) as u8])?;\n        self.send_data(spi, &[y as u8])?;\n\n        self.send_data(spi, &[((y + height) >> 8) as u8])?;\n        self.send_data(spi, &[(y + height) as u8])?;\n\n        self.send_data(spi, &[0x01])?; // Gates scan both inside and outside of the partial window. (default)\n\n        //TODO: handle dtm somehow", ["C06"]),
 "c02-12in48-no-partial-out": ("src/epd12in48b_v2/mod.rs", "        self.write_window_data(transmission_cmd, window, pixels)?;\n\n        self.cmd(CS_ALL, Command::PartialOut)", "        self.write_window_data(transmission_cmd, window, pixels)?;\n\n        Ok(())", ["C02", "C15", "C06"]),
 "c01-12in48-plane-swap": ("src/epd12in48b_v2/mod.rs", "        self.write_window_data(Command::DataStartTransmission2, FULL_RECT, pixels)?;", "        self.write_window_data(Command::DataStartTransmission1, FULL_RECT, pixels)?;", ["C01", "C15"]),
 "c10-12in48-dc": ("src/epd12in48b_v2/mod.rs", "            drop(self.peris.m2s2_dc.set_state(dc));\n\n            self.delay.delay_ns(100); // Tcss = 60ns, Tsds = 30ns", "            self.delay.delay_ns(100); // Tcss = 60ns, Tsds = 30ns", ["C10", "C15"]),
 "c01-7in5-nibble": ("src/epd7in5/mod.rs", "                data |= if temp & 0x80 == 0 { 0x00 } else { 0x03 };", "                data |= if temp & 0x80 == 0 { 0x00 } else { 0x04 };", ["C01"]),
 "c07-count": ("src/epd2in9/mod.rs", "            .data_x_times(spi, color, WIDTH / 8 * HEIGHT)?;", "            .data_x_times(spi, color, WIDTH / 8 * (HEIGHT - 1))?;", ["C07"]),
}
def sh(cmd, **kw):
    return subprocess.run(cmd, shell=True, stdout=subprocess.PIPE, stderr=subprocess.STDOUT, text=True, **kw)
names = sys.argv[1:] or list(M)
env = dict(os.environ); env["VERIF_EVIDENCE_DIR"] = "/verif/out/evidence-scratch"
if sh("git -C /repo diff --quiet").returncode != 0:
    print("/repo dirty"); sys.exit(2)
for n in names:
    f, old, new, props = M[n]
    p = os.path.join("/repo", f)
    s = open(p).read()
    if s.count(old) < 1:
        print("%-26s PATTERN NOT FOUND" % n); continue
    open(p, "w").write(s.replace(old, new, 1))
    try:
        b = sh("cd /repo && cargo build --offline 2>&1 | tail -1")
        if "error" in b.stdout:
            print("%-26s does not compile" % n); continue
        res = []
        for pr in props:
            r = subprocess.run(["./check", pr, "--tier", "quick"], cwd="/verif", env=env, stdout=subprocess.PIPE, stderr=subprocess.DEVNULL, text=True)
            v = [l for l in r.stdout.splitlines() if l.startswith("  detail")]
            res.append("%s rc=%d viol=%d %s" % (pr, r.returncode, len(v), (v[0][10:170] if v else "")))
        print("%-26s %s" % (n, " || ".join(res)))
    finally:
        sh("git -C /repo checkout -- .")
