#!/bin/bash
# usage: tools/try_patch.sh <patch.diff> [--tier quick|thorough] PROP [PROP ...]
# Applies a seeded change to /repo, runs the given checks, and ALWAYS restores /repo afterwards.
set -u
patch="$1"; shift
tier=quick
if [ "${1:-}" = "--tier" ]; then tier="$2"; shift 2; fi
cd /verif
export VERIF_EVIDENCE_DIR=/verif/out/evidence-scratch
if ! git -C /repo diff --quiet; then echo "/repo has uncommitted changes; refusing"; exit 2; fi
git -C /repo apply "$patch" || { echo "patch does not apply"; exit 2; }
trap 'git -C /repo checkout -- . ; git -C /repo status --short | head -3' EXIT
for p in "$@"; do
  out=$(./check "$p" --tier "$tier" 2>/dev/null)
  rc=$?
  echo "== $p rc=$rc"
  echo "$out" | grep -E "^VIOLATION|^  detail|^\[check\]" | cut -c1-400 | head -12
done
