#!/bin/bash
# usage: tools/verify_seed.sh <worktree> <seed-id>
# Confirms a seeded change: patch applies on clean HEAD, crate + existing tests pass with it,
# demo fails with it and passes without it. Then stores it under /verif/seeded/<id>/.
set -u
wt="$1"; id="$2"
cd "$wt" || exit 2
cp patch.diff /tmp/rd/patch_$id.diff
# note: git stash is shared between all worktrees of a repository - never use it here
git diff -- src > /tmp/rd/wt_state_$id.diff
git checkout -q -- src 2>/dev/null
if ! git apply --check /tmp/rd/patch_$id.diff; then echo "PATCH DOES NOT APPLY"; exit 1; fi
echo "--- without patch: demo"
cargo test --offline --test seeded_demo 2>&1 | grep -E "^test result|error\[" | head -3
git apply /tmp/rd/patch_$id.diff
echo "--- with patch: lib tests"
cargo test --offline --lib 2>&1 | grep -E "^test result|error\[" | head -3
echo "--- with patch: doc tests"
cargo test --offline --doc 2>&1 | grep -E "^test result|error\[" | head -3
echo "--- with patch: demo"
cargo test --offline --test seeded_demo 2>&1 | grep -E "^test result|error\[" | head -3
mkdir -p /verif/seeded/$id
cp /tmp/rd/patch_$id.diff /verif/seeded/$id/patch.diff
cp tests/seeded_demo.rs /verif/seeded/$id/seeded_demo.rs
cp meta.json /verif/seeded/$id/meta.agent.json 2>/dev/null
git checkout -q -- src
git apply /tmp/rd/wt_state_$id.diff 2>/dev/null
echo "stored in /verif/seeded/$id"
